import Ldlm.Model.Core
import Ldlm.Proofs.MapOps
/-! Part A of the M2 invariant: per-lock capacity bound and "no lost wake-up" (a queued call implies
a full lock).  Inductive on its own; holds for every lawful table representation. -/
namespace Ldlm.Core

variable {M : Type} (o : MapOps M) (c : Cfg)

/-- what must hold of every lock record -/
def LockOk (r : LockRec) : Prop :=
  (r.keys.length : Int) ≤ r.size ∧ (r.q ≠ [] → (r.keys.length : Int) = r.size)

def LockInv (s : St M) : Prop := ∀ n r, o.get s.locks n = some r → LockOk r

variable {o} {c}

theorem get_set_cases (ho : o.Lawful) {m : M} {n n' : Str} {r r' : LockRec}
    (h : o.get (o.set m n r) n' = some r') : (n = n' ∧ r' = r) ∨ o.get m n' = some r' := by
  rw [ho.get_set] at h
  by_cases e : n = n'
  · simp [e] at h; exact Or.inl ⟨e, h.symm⟩
  · simp [e] at h; exact Or.inr h

/-- replacing one record by an OK record keeps the invariant -/
theorem LockInv.set (ho : o.Lawful) {s : St M} (h : LockInv o s) {n : Str} {r : LockRec} (hr : LockOk r)
    {s' : St M} (hs : s'.locks = o.set s.locks n r) : LockInv o s' := by
  intro n' r' hg
  rw [hs] at hg
  rcases get_set_cases ho hg with ⟨_, e⟩ | hg'
  · rw [e]; exact hr
  · exact h n' r' hg'

theorem LockInv.same {s s' : St M} (h : LockInv o s) (hs : s'.locks = s.locks) : LockInv o s' := by
  intro n r hg; rw [hs] at hg; exact h n r hg

/-! effects of the building blocks on `.locks` -/

@[simp] theorem save_locks (s : St M) : (save s).locks = s.locks := rfl
@[simp] theorem addBook_locks (s : St M) (sid : Sid) (h : Hold) : (addBook s sid h).locks = s.locks := rfl
@[simp] theorem removeBook_locks (s : St M) (n k : Str) : (removeBook s n k).locks = s.locks := rfl
@[simp] theorem arm_locks (s : St M) (n k : Str) (sid : Sid) (lt : Option Int) :
    (arm s n k sid lt).locks = s.locks := by
  unfold arm; split
  · split <;> rfl
  · rfl
@[simp] theorem book_locks (s : St M) (sid : Sid) (n k : Str) (sz : Int) (lt : Option Int) :
    (book s sid n k sz lt).locks = s.locks := by simp [book]

/-- the record `handOver` writes back -/
def handOverRec (r : LockRec) : LockRec :=
  match r.q with
  | [] => r
  | p :: q' => { r with q := q', keys := r.keys ++ [p.key] }

theorem handOver_locks (s : St M) (n : Str) (r : LockRec) :
    (handOver o s n r).1.locks = o.set s.locks n (handOverRec r) := by
  unfold handOver handOverRec
  split <;> simp [*]

/-- a record one unit below an OK state becomes OK again after the hand-over -/
theorem handOverRec_ok (r : LockRec) (h1 : (r.keys.length : Int) + 1 ≤ r.size)
    (h2 : r.q ≠ [] → (r.keys.length : Int) + 1 = r.size) : LockOk (handOverRec r) := by
  unfold handOverRec
  split
  · rename_i hq
    exact ⟨by omega, fun hne => absurd hq hne⟩
  · rename_i p q' hq
    have := h2 (by simp [hq])
    refine ⟨by simp; omega, fun _ => by simp; omega⟩

theorem erase_ok {r : LockRec} (hr : LockOk r) {k : Str} (hk : k ∈ r.keys) (la : Nat) :
    let r' : LockRec := { r with lastAccessed := la, keys := r.keys.erase k }
    (r'.keys.length : Int) + 1 ≤ r'.size ∧ (r'.q ≠ [] → (r'.keys.length : Int) + 1 = r'.size) := by
  have hl := List.length_erase_of_mem hk
  have hp : 0 < r.keys.length := List.length_pos_of_mem hk
  obtain ⟨h1, h2⟩ := hr
  simp only
  rw [hl]
  refine ⟨by omega, fun hq => ?_⟩
  have := h2 hq
  omega

theorem mgrUnlock_inv (ho : o.Lawful) {s : St M} (h : LockInv o s) (n k : Str) :
    LockInv o (mgrUnlock o s n k).1 := by
  unfold mgrUnlock
  split
  · exact h
  · rename_i r hg
    have hr := h n r hg
    simp only
    split
    · rename_i hk
      have hk' : k ∈ r.keys := hk
      obtain ⟨e1, e2⟩ := erase_ok hr hk' s.now
      refine LockInv.set ho h (n := n) (handOverRec_ok _ e1 e2) ?_
      rw [handOver_locks]
    · exact LockInv.set ho h (r := { r with lastAccessed := s.now }) hr rfl

theorem getLockCreate_ok (ho : o.Lawful) {s : St M} (h : LockInv o s) {n : Str} {sz : Int} {r : LockRec}
    (hg : getLockCreate o s n sz = .ok r) : LockOk r := by
  unfold getLockCreate at hg
  split at hg
  · cases hg
  · split at hg
    · rename_i r0 hr0
      split at hg
      · cases hg
      · cases hg; exact h n r0 hr0
    · cases hg
      rename_i hsz _
      exact ⟨by simp; omega, fun hq => absurd rfl hq⟩

theorem grant_ok {r : LockRec} (hr : LockOk r) (hc : (r.keys.length : Int) < r.size ∧ r.q = []) (k : Str) :
    LockOk { r with keys := r.keys ++ [k] } :=
  ⟨by simp; omega, fun hq => absurd hc.2 hq⟩

theorem enqueue_ok {r : LockRec} (hr : LockOk r) (hc : ¬ ((r.keys.length : Int) < r.size ∧ r.q = [])) (p : Pending) :
    LockOk { r with q := r.q ++ [p] } := by
  refine ⟨hr.1, fun _ => ?_⟩
  by_cases hq : r.q = []
  · have : ¬ (r.keys.length : Int) < r.size := fun h => hc ⟨h, hq⟩
    have := hr.1
    simp only; omega
  · exact hr.2 hq

theorem srvTryLock_inv (ho : o.Lawful) {s : St M} (h : LockInv o s) (sid : Option Sid) (n : Str) (sz lt : Option Int) :
    LockInv o (srvTryLock o c s sid n sz lt).1 := by
  unfold srvTryLock
  simp only
  split
  · exact LockInv.same h rfl
  · split
    · exact LockInv.same h rfl
    · split
      · exact LockInv.same h rfl
      · split
        · exact LockInv.same h rfl
        · rename_i r hg
          have hr : LockOk r := getLockCreate_ok ho (s := { s with nreq := s.nreq + 1 }) (LockInv.same h rfl) hg
          split
          · rename_i hc
            exact LockInv.set ho h (n := n) (grant_ok hr hc (c.genKey s.nreq)) (by simp)
          · exact LockInv.set ho h hr rfl

theorem srvLock_inv (ho : o.Lawful) {s : St M} (h : LockInv o s) (sid : Option Sid) (n : Str) (sz lt wt : Option Int) :
    LockInv o (srvLock o c s sid n sz lt wt).1 := by
  unfold srvLock
  simp only
  split
  · exact LockInv.same h rfl
  · split
    · exact LockInv.same h rfl
    · split
      · exact LockInv.same h rfl
      · split
        · exact LockInv.same h rfl
        · split
          · exact LockInv.same h rfl
          · rename_i r hg
            have hr : LockOk r := getLockCreate_ok ho (s := { s with nreq := s.nreq + 1 }) (LockInv.same h rfl) hg
            split
            · rename_i hc
              exact LockInv.set ho h (n := n) (grant_ok hr hc (c.genKey s.nreq)) (by simp)
            · rename_i hc
              exact LockInv.set ho h (enqueue_ok hr hc _) rfl

theorem srvUnlock_inv (ho : o.Lawful) {s : St M} (h : LockInv o s) (n k : Str) :
    LockInv o (srvUnlock o s n k).1 := by
  unfold srvUnlock
  simp only
  have h1 : LockInv o (mgrUnlock o { s with timers := AMap.del s.timers (tkey n k) } n k).1 :=
    mgrUnlock_inv ho (s := { s with timers := AMap.del s.timers (tkey n k) }) (LockInv.same h rfl) n k
  split
  · exact LockInv.same h1 (by simp)
  · exact h1

theorem abandon_inv (ho : o.Lawful) {s : St M} (h : LockInv o s) (p : Pending) (e : Err) :
    LockInv o (abandon o s p e).1 := by
  unfold abandon
  simp only
  split
  · rename_i r hg
    have hr := h p.name r hg
    refine LockInv.set ho h (r := { r with q := r.q.filter (fun p' => p'.req ≠ p.req) }) ⟨hr.1, fun hq => hr.2 ?_⟩ rfl
    intro hnil; simp [hnil] at hq
  · exact LockInv.same h rfl

theorem abandonAll_inv (ho : o.Lawful) (ps : List Pending) (e : Err) : ∀ {s : St M} (ev : List Event),
    LockInv o s → LockInv o (ps.foldl (fun (acc : St M × List Event) p =>
      let (s', ev) := abandon o acc.1 p e
      (s', acc.2 ++ ev)) (s, ev)).1 := by
  induction ps with
  | nil => intro s ev h; exact h
  | cons p ps ih =>
    intro s ev h
    simp only [List.foldl_cons]
    exact ih _ (abandon_inv ho h p e)

theorem fireLease_inv (ho : o.Lawful) {s : St M} (h : LockInv o s) (tk : Str) (tm : Timer) :
    LockInv o (fireLease o s tk tm).1 := by
  unfold fireLease
  simp only
  exact LockInv.same (mgrUnlock_inv ho h tm.name tm.key) (by simp)

theorem clearHolds_inv (ho : o.Lawful) (hs : List Hold) : ∀ {s : St M} (ev : List Event),
    LockInv o s → LockInv o (hs.foldl (fun (acc : St M × List Event) h =>
      let (s', ok, _, ev) := mgrUnlock o acc.1 h.name h.key
      let s' := if ok then { s' with timers := AMap.del s'.timers (tkey h.name h.key) } else s'
      (s', acc.2 ++ ev)) (s, ev)).1 := by
  induction hs with
  | nil => intro s ev h; exact h
  | cons x hs ih =>
    intro s ev h
    simp only [List.foldl_cons]
    apply ih
    have := mgrUnlock_inv ho h x.name x.key
    split
    · exact LockInv.same this rfl
    · exact this

theorem destroy_inv (ho : o.Lawful) {s : St M} (h : LockInv o s) (sid : Sid) :
    LockInv o (destroy o c s sid).1 := by
  unfold destroy
  split
  · exact h
  · simp only
    split
    · exact LockInv.same h rfl
    · exact clearHolds_inv ho _ [] (LockInv.same h rfl)

theorem gcPass_inv (ho : o.Lawful) {s : St M} (h : LockInv o s) (mi : Nat) : LockInv o (gcPass o s mi) := by
  intro n r hg
  simp only [gcPass, ho.get_filter] at hg
  cases hx : o.get s.locks n with
  | none => simp [hx] at hg
  | some r0 =>
    simp only [hx, Option.filter] at hg
    split at hg
    · have e := Option.some.inj hg; rw [← e]; exact h n r0 hx
    · cases hg

theorem advanceTo_inv (ho : o.Lawful) (target : Nat) : ∀ (fuel : Nat) {s : St M},
    LockInv o s → LockInv o (advanceTo o c target fuel s).1 := by
  intro fuel
  induction fuel with
  | zero => intro s h; exact LockInv.same h rfl
  | succ f ih =>
    intro s h
    unfold advanceTo
    simp only
    split
    · exact LockInv.same h rfl
    · split
      · exact LockInv.same h rfl
      · apply ih
        rename_i t _ _
        have h0 : LockInv o { s with now := max s.now t } := LockInv.same h rfl
        split
        · split
          · exact fireLease_inv ho h0 _ _
          · exact h0
        · split
          · split
            · exact abandon_inv ho h0 _ _
            · exact h0
          · exact LockInv.same (gcPass_inv ho h0 c.gcMinIdle) rfl

theorem restoreOne_inv (ho : o.Lawful) {s : St M} (h : LockInv o s) (sid : Sid) (x : Hold) :
    LockInv o (restoreOne o c s sid x) := by
  unfold restoreOne
  simp only
  split
  · exact LockInv.same h (by simp)
  · rename_i r hg
    have hr : LockOk r := getLockCreate_ok ho h hg
    split
    · rename_i hc
      exact LockInv.set ho h (grant_ok hr hc _) rfl
    · exact LockInv.set ho (s := removeBook s x.name x.key) (LockInv.same h (by simp)) hr rfl

theorem restoreAll_inv (ho : o.Lawful) (m : List (Sid × List Hold)) : ∀ {s : St M},
    LockInv o s → LockInv o (restoreAll o c s m) := by
  unfold restoreAll
  induction m with
  | nil => intro s h; exact h
  | cons e m ih =>
    intro s h
    simp only [List.foldl_cons]
    apply ih
    generalize e.2 = hs
    induction hs generalizing s with
    | nil => exact h
    | cons x hs ih2 => simp only [List.foldl_cons]; exact ih2 (restoreOne_inv ho h e.1 x)

theorem restart_inv (ho : o.Lawful) {s : St M} (_h : LockInv o s) : LockInv o (restart o c s).1 := by
  unfold restart
  simp only
  apply restoreAll_inv ho
  intro n r hg
  simp only [ho.get_empty] at hg
  cases hg

theorem init_inv (ho : o.Lawful) : LockInv o (init o c) := by
  intro n r hg
  simp only [init, ho.get_empty] at hg
  cases hg

/-- every operation preserves Part A -/
theorem step_lockInv (ho : o.Lawful) {s : St M} (h : LockInv o s) (op : Op) : LockInv o (step o c s op).1 := by
  cases op with
  | connect sid =>
    simp only [step]
    split <;> exact LockInv.same h rfl
  | disconnect sid =>
    simp only [step]
    exact destroy_inv ho (abandonAll_inv ho _ _ [] h) sid
  | tryLock sid n sz lt => exact srvTryLock_inv ho h sid n sz lt
  | lock sid n sz lt wt => exact srvLock_inv ho h sid n sz lt wt
  | unlock sid n k => exact srvUnlock_inv ho h n k
  | renew n k t =>
    simp only [step, srvRenew]
    split
    · exact h
    · split <;> exact LockInv.same h rfl
  | advance dt => simp only [step]; exact advanceTo_inv ho _ _ h
  | gc mi => exact gcPass_inv ho h mi
  | restart => simp only [step]; exact restart_inv ho h
  | ipcUnlock n k ch =>
    simp only [step]
    split
    · exact h
    · exact srvUnlock_inv ho h n _
  | cancel req =>
    simp only [step]
    split
    · exact h
    · exact abandon_inv ho h _ .canceled

/-- Part A holds in every state reachable from `init` by any operation sequence -/
theorem run_lockInv (ho : o.Lawful) (ops : List Op) :
    LockInv o (ops.foldl (fun s op => (step o c s op).1) (init o c)) := by
  have : ∀ (s : St M), LockInv o s → LockInv o (ops.foldl (fun s op => (step o c s op).1) s) := by
    induction ops with
    | nil => intro s h; exact h
    | cons op ops ih => intro s h; exact ih _ (step_lockInv ho h op)
  exact this _ (init_inv ho)

end Ldlm.Core
