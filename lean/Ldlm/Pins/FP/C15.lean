import Ldlm.Generated.Facts
/-!
Source fingerprints for C15: the functions of /repo its models were written against (verifcfg.FPMAP).
`Facts.fp_*` is regenerated from the working tree by every check (first 16 hex digits of SHA-256 of the
normalised signature and body); the right-hand sides were copied from a reviewed tree by tools/mkfp.py and
are NOT regenerated. A pin that no longer checks = this function changed since the models were written.
-/
namespace Ldlm.Pins.FP.C15
open Ldlm

/-- net/rest/rest.go: restHandler.ServeHTTP -/
theorem fp_net_rest_rest_restHandler_ServeHTTP : Facts.fp_net_rest_rest_restHandler_ServeHTTP = "0b151c3347286669" := rfl
/-- net/rest/rest.go: restHandler.ValidatePassword -/
theorem fp_net_rest_rest_restHandler_ValidatePassword : Facts.fp_net_rest_rest_restHandler_ValidatePassword = "469970c23cce8baf" := rfl
/-- net/rest/rest.go: restHandler.ValidateSession -/
theorem fp_net_rest_rest_restHandler_ValidateSession : Facts.fp_net_rest_rest_restHandler_ValidateSession = "fa29095bb900f082" := rfl
/-- net/rest/rest.go: restHandler.DestroySession -/
theorem fp_net_rest_rest_restHandler_DestroySession : Facts.fp_net_rest_rest_restHandler_DestroySession = "3317c9596c7327eb" := rfl
/-- net/rest/rest.go: restHandler.CreateSession -/
theorem fp_net_rest_rest_restHandler_CreateSession : Facts.fp_net_rest_rest_restHandler_CreateSession = "20c49babc91e330c" := rfl
/-- net/rest/rest.go: restHandler.onTimeoutFunc -/
theorem fp_net_rest_rest_restHandler_onTimeoutFunc : Facts.fp_net_rest_rest_restHandler_onTimeoutFunc = "b520532daf0b7ddc" := rfl
/-- net/rest/rest.go: Run -/
theorem fp_net_rest_rest_Run : Facts.fp_net_rest_rest_Run = "7444684083624d1f" := rfl
/-- net/rest/rest.go: NewRestServer -/
theorem fp_net_rest_rest_NewRestServer : Facts.fp_net_rest_rest_NewRestServer = "0e5e4a42d37dd44d" := rfl
/-- net/grpc/grpc.go: Service.Lock -/
theorem fp_net_grpc_grpc_Service_Lock : Facts.fp_net_grpc_grpc_Service_Lock = "39132fa414ac5180" := rfl
/-- net/grpc/grpc.go: Service.Unlock -/
theorem fp_net_grpc_grpc_Service_Unlock : Facts.fp_net_grpc_grpc_Service_Unlock = "ffa33f17adce51a7" := rfl
/-- net/grpc/grpc.go: Service.TryLock -/
theorem fp_net_grpc_grpc_Service_TryLock : Facts.fp_net_grpc_grpc_Service_TryLock = "5e23c58e7e30fa90" := rfl
/-- net/grpc/grpc.go: Service.Renew -/
theorem fp_net_grpc_grpc_Service_Renew : Facts.fp_net_grpc_grpc_Service_Renew = "d5bbb46706d86bd2" := rfl
/-- net/grpc/grpc.go: lockErrToProtoBuffErr -/
theorem fp_net_grpc_grpc_lockErrToProtoBuffErr : Facts.fp_net_grpc_grpc_lockErrToProtoBuffErr = "15bd3af5d2e0d8ac" := rfl
/-- net/grpc/grpc.go: Service.HandleConn -/
theorem fp_net_grpc_grpc_Service_HandleConn : Facts.fp_net_grpc_grpc_Service_HandleConn = "0c63abb89aee0537" := rfl
/-- net/grpc/grpc.go: Service.TagConn -/
theorem fp_net_grpc_grpc_Service_TagConn : Facts.fp_net_grpc_grpc_Service_TagConn = "8947419221fab913" := rfl
/-- net/grpc/grpc.go: Service.TagRPC -/
theorem fp_net_grpc_grpc_Service_TagRPC : Facts.fp_net_grpc_grpc_Service_TagRPC = "cfb1a4a6cd69527c" := rfl
/-- net/grpc/grpc.go: Service.HandleRPC -/
theorem fp_net_grpc_grpc_Service_HandleRPC : Facts.fp_net_grpc_grpc_Service_HandleRPC = "9fe8322a320257b0" := rfl
/-- net/grpc/grpc.go: NewService -/
theorem fp_net_grpc_grpc_NewService : Facts.fp_net_grpc_grpc_NewService = "762bb49eac2c081a" := rfl
/-- net/grpc/grpc.go: Run -/
theorem fp_net_grpc_grpc_Run : Facts.fp_net_grpc_grpc_Run = "5ad0b509b3e7a51e" := rfl
/-- net/grpc/grpc.go: authPasswordInterceptor -/
theorem fp_net_grpc_grpc_authPasswordInterceptor : Facts.fp_net_grpc_grpc_authPasswordInterceptor = "863bb5cc0537355a" := rfl
/-- net/net.go: Run -/
theorem fp_net_net_Run : Facts.fp_net_net_Run = "4cc945e928d276ec" := rfl

end Ldlm.Pins.FP.C15
