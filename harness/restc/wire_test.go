package restc

// TestRestWire (C15, third stream) — the same paired comparison as TestRest/C15, but the REST side is
// the real *http.Server returned by rest.NewRestServer serving a loopback listener, and EVERY REST
// session of a sequence talks to it through ONE keep-alive http.Client (as behind a reverse proxy):
// what the server does per connection (ConnContext, connection state hooks) is then in play, which
// a handler called with recorders never sees. Real time, no time gaps, short sequences.

import (
	"context"
	"fmt"
	"io"
	"net"
	"net/http"
	"strings"
	"testing"

	pb "github.com/imoore76/ldlm/protos"
	"google.golang.org/protobuf/encoding/protojson"

	"verif/harness/common"
)

type wire struct {
	base string
	hc   *http.Client
	ln   net.Listener
}

func (w *wire) do(method, path string, cookie *string, body string) (code int, out string, setCookie string, err error) {
	req, _ := http.NewRequest(method, w.base+path, strings.NewReader(body))
	req.Header.Set("Content-Type", "application/json")
	if cookie != nil {
		req.Header.Set("Cookie", cookieName+"="+*cookie)
	}
	resp, err := w.hc.Do(req)
	if err != nil {
		return 0, "", "", err
	}
	defer resp.Body.Close()
	b, _ := io.ReadAll(resp.Body)
	for _, c := range resp.Cookies() {
		if c.Name == cookieName {
			setCookie = c.Value
		}
	}
	return resp.StatusCode, string(b), setCookie, nil
}

func TestRestWire(t *testing.T) {
	const prop = "C15"
	res := common.NewResult("restwire")
	startWatchdog(res)
	res.Rule = "random request sequences (1-3 sessions; TryLock/Unlock/Renew with valid and invalid parameters; session ends; no time gaps) sent over gRPC (direct service calls under a connection context) to one fresh server and over REST to another through the real http.Server on a loopback listener, all REST sessions of a sequence sharing one keep-alive connection; responses and hold listings compared after every step. distinct = distinct semantic step sequence; non-trivial = two or more sessions, a grant and a session end"
	defer func() {
		if err := res.Write(); err != nil {
			t.Fatal(err)
		}
	}()
	n := 150
	if common.Thorough() {
		n = 1500
	}
	rng := common.NewRng(common.Seed() ^ 0x3172)
	for i := 0; i < n; i++ {
		r := rng.Fork(uint64(i))
		runWireSeq(t, res, prop, r, 8+r.Intn(18))
	}
}

func runWireSeq(t *testing.T, res *common.Result, prop string, r *common.Rng, nsteps int) {
	ref, err := newSide(false, 0)
	if err != nil {
		t.Fatal(err)
	}
	defer ref.close()
	tst, err := newSide(true, 600e9)
	if err != nil {
		t.Fatal(err)
	}
	defer tst.close()
	ln, err := net.Listen("tcp", "127.0.0.1:0")
	if err != nil {
		t.Fatal(err)
	}
	go tst.srv.Serve(ln)
	w := &wire{base: "http://" + ln.Addr().String(), hc: &http.Client{Transport: &http.Transport{MaxIdleConnsPerHost: 1, MaxConnsPerHost: 1}}}
	defer w.hc.CloseIdleConnections()

	src := &randSource{r: r.Fork(1), left: nsteps}
	enc := r.Fork(2)
	st := &genState{}
	refConn := map[int]context.Context{}
	cookie := map[int]string{}
	var gRef, gTst []string
	var canon, trail []string
	sessions, grants, ends := 0, 0, 0
	find := func(sig, what string) {
		res.Find(common.Finding{Kind: "violation", Property: prop, Signature: sig, What: what,
			Replay: map[string]any{"mode": "wire", "seed": common.Seed(), "steps": trail,
				"final_ref_locks": locksCanon(ref.ls, true), "final_test_locks": locksCanon(tst.ls, true)}})
	}
	for {
		s, ok := src.next(st)
		if !ok {
			break
		}
		s.Gap = 0
		canon = append(canon, s.canon())
		switch s.Kind {
		case "open":
			refConn[s.Sess] = ref.grpcConn(s.Sess)
			code, _, ck, err := w.do("POST", "/session", nil, "")
			trail = append(trail, fmt.Sprintf("%s -> %d", s.canon(), code))
			if err != nil || code != 201 || ck == "" {
				find("restwire:session-create-failed", fmt.Sprintf("POST /session over the wire answered %d (err %v)", code, err))
				return
			}
			cookie[s.Sess] = ck
			st.open = append(st.open, s.Sess)
			st.nSess++
			sessions++
		case "end":
			ref.grpcEnd(refConn[s.Sess])
			ck := cookie[s.Sess]
			code, _, _, err := w.do("DELETE", "/session", &ck, "")
			trail = append(trail, fmt.Sprintf("%s -> %d", s.canon(), code))
			for i, o := range st.open {
				if o == s.Sess {
					st.open = append(st.open[:i:i], st.open[i+1:]...)
					break
				}
			}
			ends++
			if err != nil || code != 200 {
				find("restwire:session-end-failed", fmt.Sprintf("DELETE /session of an open session answered %d (err %v)", code, err))
				return
			}
		case "req":
			q := s.Req
			q.Malformed = ""
			refKey, tstKey := "", ""
			switch q.Key.Kind {
			case "granted":
				refKey = gRef[q.Key.Idx]
				tstKey = "missing-grant"
				if q.Key.Idx < len(gTst) {
					tstKey = gTst[q.Key.Idx]
				}
			case "lit":
				refKey, tstKey = q.Key.Lit, q.Key.Lit
			}
			rr := callGrpc(ref, refConn[s.Sess], q, refKey)
			path, body := encode(enc, &q, tstKey, func(string) {})
			ck := cookie[s.Sess]
			code, out, _, err := w.do("POST", path, &ck, body)
			rt := nresp{HTTP: code}
			if err == nil && code == 200 {
				if q.Rpc == "Unlock" {
					m := &pb.UnlockResponse{}
					if protojson.Unmarshal([]byte(out), m) == nil {
						rt = fromUnlock(m)
					}
				} else {
					m := &pb.LockResponse{}
					if protojson.Unmarshal([]byte(out), m) == nil {
						rt = fromLock(m, tstKey)
					}
				}
				rt.HTTP = 200
			}
			trail = append(trail, fmt.Sprintf("%s body=%s -> grpc ok=%v err=%s | rest http=%d ok=%v err=%s", s.canon(), body, rr.Ok, rr.Err, rt.HTTP, rt.Ok, rt.Err))
			if q.Rpc == "TryLock" && rr.Ok {
				gRef = append(gRef, rr.Key)
				st.granted = append(st.granted, grantInfo{Name: q.Name, Sess: s.Sess, Lease: q.Lt != nil && *q.Lt > 0})
				grants++
				if rt.Ok {
					gTst = append(gTst, rt.Key)
				} else {
					gTst = append(gTst, "missing-grant")
				}
			}
			if err != nil || rr.GrpcFail != "" {
				// a request gRPC itself refuses (e.g. invalid UTF-8) has no counterpart; transport errors end the sequence
				return
			}
			if rt.HTTP != 200 || rt.Ok != rr.Ok || rt.Err != rr.Err {
				find("restwire:equiv:"+q.Rpc, fmt.Sprintf("%s answers locked/unlocked=%v error=%s over gRPC but HTTP %d locked/unlocked=%v error=%s over REST (shared keep-alive connection)", q.canon(), rr.Ok, rr.Err, rt.HTTP, rt.Ok, rt.Err))
				return
			}
		}
		if a, b := strings.Join(locksCanon(ref.ls, false), ","), strings.Join(locksCanon(tst.ls, false), ","); a != b {
			find("restwire:equiv:holds", fmt.Sprintf("after %q the gRPC server holds {%s} and the REST server {%s}", canon[len(canon)-1], a, b))
			return
		}
	}
	res.Eval(strings.Join(canon, ";"), sessions >= 2 && grants > 0 && ends > 0)
	res.Count(fmt.Sprintf("sessions:%d", sessions))
}
