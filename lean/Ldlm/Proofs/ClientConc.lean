import Ldlm.Model.ClientConc
/-! M5c: invariant for every schedule of the repaired `Stop`; what the old `Stop` allowed. -/
namespace Ldlm.ClientConc

structure Inv (s : St) : Prop where
  uDone : s.u = .u2 ∨ s.u = .u3 → s.g = .exited
  cDone : s.c = .u2 ∨ s.c = .u3 → s.g = .exited
  stop  : s.stopClosed = true ↔ (s.u ≠ .u0 ∨ s.c ≠ .u0)
  heldU : s.held = false → s.u = .u3
  connC : s.connClosed = true → s.c = .u3
  late  : s.late = false
  nopan : s.g ≠ .panicked

theorem init_inv : Inv init := by
  constructor <;> simp [init]

theorem step_inv (s s' : St) (a : Act) (h : Inv s) (hs : step false s a = some s') : Inv s' := by
  obtain ⟨h1, h2, h3, h4, h5, h6, h7⟩ := h
  cases a <;> simp only [step, stopper, Bool.false_eq_true, ↓reduceIte] at hs
  all_goals (try (split at hs))
  all_goals (try (split at hs))
  all_goals (first | (cases hs; done) | skip)
  all_goals (first | (simp only [Option.some.injEq] at hs; subst hs) | subst hs)
  all_goals (constructor <;> simp_all <;> (try (first | done | grind)))

theorem run_inv : ∀ (as : List Act) (s s' : St), Inv s → run false s as = some s' → Inv s' := by
  intro as
  induction as with
  | nil => intro s s' h hr; simp only [run, Option.some.injEq] at hr; subst hr; exact h
  | cons a as ih =>
    intro s s' h hr
    simp only [run] at hr
    split at hr
    · cases hr
    · rename_i s1 hs1
      exact ih s1 s' (step_inv s s1 a h hs1) hr

/-- a stopper that waits is never stuck: the renew goroutine can always move until it has exited -/
theorem stopper_progress (s : St) (h : Inv s) (hw : s.u = .u1 ∨ s.c = .u1) :
    s.g = .exited ∨ ∃ a, (a = .gTimer ∨ a = .gCheck ∨ a = .gSend ∨ a = .gAnswer ∨ a = .gStop) ∧ step false s a ≠ none := by
  have hst : s.stopClosed = true := h.stop.mpr (by rcases hw with hw | hw <;> simp [hw])
  cases hg : s.g with
  | sel => right; exact ⟨.gStop, by simp, by simp [step, hg, hst]⟩
  | fired => right; exact ⟨.gCheck, by simp, by simp [step, hg]⟩
  | checked => right; exact ⟨.gSend, by simp, by simp [step, hg]⟩
  | inRenew => right; exact ⟨.gAnswer, by simp, by simp [step, hg]⟩
  | exited => left; rfl
  | panicked => exact absurd hg h.nopan

end Ldlm.ClientConc
