#!/bin/sh
# trymutant.sh <id> <patch> <prop> [<prop>...]: apply a seeded change to /repo, run the named checks
# (quick tier), undo it straight afterwards. Prints one line per check.
id=$1; patch=$2; shift 2
cd /repo || exit 2
git diff --quiet || { echo "/repo has local changes"; exit 2; }
git apply "$patch" || { echo "patch does not apply"; exit 2; }
for p in "$@"; do
  out=$(cd /verif && VERIF_SEED=${VERIF_SEED:-1} ./check "$p" --tier ${TIER:-quick} 2>/tmp/trymutant-$id-$p.err)
  rc=$?
  echo "== $id $p rc=$rc :: $(echo "$out" | grep -E 'VIOLATION|HELD|VIOLATED' | tr '\n' ' ' | cut -c1-400)"
  grep -E "^  (violation|broken|disagreement)" /tmp/trymutant-$id-$p.err | head -4 | cut -c1-300
done
git -C /repo checkout -- . 
git -C /repo status --short | head -3
cd /verif/tools/facts && GOFLAGS=-mod=mod GOPROXY=off GOSUMDB=off GOTOOLCHAIN=local go1.26.8 run . /repo /verif/lean/Ldlm/Generated/Facts.lean
