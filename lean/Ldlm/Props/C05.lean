import Ldlm.Proofs.Lease
/-!
C05 — Unlock, Renew and lease expiry racing on one hold answer truthfully.

Model M3a (`Ldlm.Lease`): the life of one leased hold with any number of concurrent Unlock and Renew
threads and the lease callback, one step per call into a manager, EVERY schedule (`List Act`).
The model follows the repaired code: `TimerMap.Reset` is one critical section (pinned to its source
text: `Pins.C05.pin_TimerReset`).

* `unlock_truthful`   — in every reachable state: if some Unlock has answered unlocked=true, the hold
                        is out of the lock table, or the lease callback is standing right before its
                        own `lockMgr.Unlock` (the expiry already in progress frees it at once).
* `unlock_truthful_at_quiescence` — when nothing is in flight any more, an Unlock that answered true
                        means the hold is gone: no interleaving ends with a hold that was reported
                        released still occupying the lock.
* `renew_truthful`    — a Renew that answers locked=true does so in a state where the hold is in the
                        table and its timer entry is armed (and it stays armed: the lease restarts);
                        `renew_after_fire_says_false`: once the timer has fired Renew never says true.
* `held_only_decreases` — nothing in these races ever puts the hold back.
The original code violated the first two (D7: Renew's Stop/Reset outside the map lock); found by the
conc stream, repaired (`fix:` e566dad).
-/
namespace Ldlm.Props.C05
open Ldlm.Lease

theorem reachable_inv : ∀ (as : List Act) (s s' : St), Inv s → run s as = some s' → Inv s' := by
  intro as
  induction as with
  | nil => intro s s' h hr; simp [run] at hr; rw [← hr]; exact h
  | cons a as ih =>
    intro s s' h hr
    simp only [run] at hr
    cases hs : step s a with
    | none => simp [hs] at hr
    | some r =>
      obtain ⟨s1, ans⟩ := r
      simp only [hs] at hr
      exact ih s1 s' (step_inv s s1 a ans h hs) hr

/-- **C05, Unlock half** -/
theorem unlock_truthful (as : List Act) (s : St) (hr : run init as = some s) (hsaid : 0 < s.saidUnlocked) :
    s.held = false ∨ s.cb = .c1 :=
  (reachable_inv as init s init_inv hr).said hsaid

theorem unlock_truthful_at_quiescence (as : List Act) (s : St) (hr : run init as = some s)
    (hsaid : 0 < s.saidUnlocked) (hq : s.cb = .none) : s.held = false := by
  rcases unlock_truthful as s hr hsaid with h | h
  · exact h
  · rw [hq] at h; cases h

/-- **C05, Renew half**: locked=true is only ever answered for a live hold with an armed lease -/
theorem renew_truthful (as : List Act) (s s' : St) (hr : run init as = some s) (err : Bool)
    (hs : step s .renew = some (s', .renewed true err)) :
    s.held = true ∧ s.timer = .armed ∧ s'.timer = .armed ∧ s'.held = true := by
  have hi := reachable_inv as init s init_inv hr
  simp only [step] at hs
  split at hs <;> simp at hs
  rename_i htm
  obtain ⟨rfl, _⟩ := hs
  exact ⟨(hi.armed htm).1, htm, htm, (hi.armed htm).1⟩

theorem renew_after_fire_says_false (s s' : St) (ans : Ans) (htm : s.timer ≠ .armed)
    (hs : step s .renew = some (s', ans)) : ans ≠ .renewed true false ∧ ans ≠ .renewed true true := by
  simp only [step] at hs
  split at hs <;> simp at hs
  · rw [← hs.2]; simp
  · rename_i h; exact absurd h htm
  · rw [← hs.2]; simp

theorem held_only_decreases (s s' : St) (a : Act) (ans : Ans) (hs : step s a = some (s', ans))
    (hh : s.held = false) : s'.held = false := by
  cases a with
  | startUnlock t => simp only [step] at hs; split at hs <;> simp at hs; rw [← hs.1]; exact hh
  | unlockStep t =>
    simp only [step] at hs
    split at hs
    · cases hs
    · rename_i t0 pc _
      cases pc with
      | u0 => simp only at hs; split at hs <;> simp at hs <;> rw [← hs.1] <;> exact hh
      | u1 => simp only [hh] at hs; simp at hs; rw [← hs.1]
      | u2 => simp only at hs; simp at hs; rw [← hs.1]; exact hh
      | u2f => simp only at hs; simp at hs; rw [← hs.1]; exact hh
  | renew => simp only [step] at hs; split at hs <;> simp at hs <;> rw [← hs.1] <;> exact hh
  | fire => simp only [step] at hs; split at hs <;> simp at hs; rw [← hs.1]; exact hh
  | cbStep => simp only [step] at hs; split at hs <;> simp at hs <;> rw [← hs.1] <;> first | rfl | exact hh

/-! non-vacuity: the D7 schedule shape on the repaired model — Renew (atomic), Unlock to completion —
ends with the hold released and both answers truthful; and the race at the deadline (fire, then an
Unlock whose Remove sees the fired timer, then its RemoveLock) answers true while the callback is at C1 -/
example : (run init [.renew, .startUnlock 1, .unlockStep 1, .unlockStep 1, .unlockStep 1]).map
    (fun s => (s.held, s.saidUnlocked, s.saidRenewed)) = some (false, 1, 1) := by decide
example : (run init [.fire, .startUnlock 1, .unlockStep 1, .unlockStep 1]).map (fun s => (s.held, s.saidUnlocked, s.cb, s.booked)) =
    some (true, 1, .c1, false) := by decide

end Ldlm.Props.C05
