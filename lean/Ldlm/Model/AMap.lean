/-! Association-list maps with the four rewrite laws every invariant proof needs
(`get_set_eq/ne`, `get_del_eq/ne`). Core Lean only. -/
namespace Ldlm.AMap

def get {α β} [DecidableEq α] : List (α × β) → α → Option β
  | [], _ => none
  | (a, b) :: m, x => if a = x then some b else get m x

def set {α β} [DecidableEq α] : List (α × β) → α → β → List (α × β)
  | [], x, v => [(x, v)]
  | (a, b) :: m, x, v => if a = x then (a, v) :: m else (a, b) :: set m x v

def del {α β} [DecidableEq α] : List (α × β) → α → List (α × β)
  | [], _ => []
  | (a, b) :: m, x => if a = x then del m x else (a, b) :: del m x

/-- keep the entries satisfying `p` -/
def filt {α β} (p : α → β → Bool) : List (α × β) → List (α × β)
  | [] => []
  | (a, b) :: m => if p a b then (a, b) :: filt p m else filt p m

/-- apply `f` to every value -/
def mapv {α β} (f : α → β → β) : List (α × β) → List (α × β)
  | [] => []
  | (a, b) :: m => (a, f a b) :: mapv f m

/-- keys are pairwise distinct -/
def Uniq {α β} : List (α × β) → Prop
  | [] => True
  | (a, _) :: m => (∀ p ∈ m, p.1 ≠ a) ∧ Uniq m

variable {α β} [DecidableEq α]

@[simp] theorem get_nil (x : α) : get ([] : List (α × β)) x = none := rfl

theorem get_cons (a : α) (b : β) (m : List (α × β)) (x : α) :
    get ((a, b) :: m) x = if a = x then some b else get m x := rfl

@[simp] theorem get_set_eq (m : List (α × β)) (x : α) (v : β) : get (set m x v) x = some v := by
  induction m with
  | nil => simp [set, get]
  | cons p m ih =>
    obtain ⟨a, b⟩ := p
    by_cases h : a = x <;> simp [set, get, h, ih]

theorem get_set_ne (m : List (α × β)) (x y : α) (v : β) (h : x ≠ y) : get (set m x v) y = get m y := by
  induction m with
  | nil => simp [set, get, h]
  | cons p m ih =>
    obtain ⟨a, b⟩ := p
    have h' : ¬ y = x := fun e => h e.symm
    by_cases h1 : a = x
    · subst h1; simp [set, get, h]
    · by_cases h2 : a = y
      · subst h2; simp [set, get, h']
      · simp [set, get, h1, h2, ih]

theorem get_set (m : List (α × β)) (x y : α) (v : β) :
    get (set m x v) y = if x = y then some v else get m y := by
  by_cases h : x = y
  · subst h; simp
  · simp [h, get_set_ne _ _ _ _ h]

@[simp] theorem get_del_eq (m : List (α × β)) (x : α) : get (del m x) x = none := by
  induction m with
  | nil => simp [del, get]
  | cons p m ih =>
    obtain ⟨a, b⟩ := p
    by_cases h : a = x <;> simp [del, get, h, ih]

theorem get_del_ne (m : List (α × β)) (x y : α) (h : x ≠ y) : get (del m x) y = get m y := by
  induction m with
  | nil => simp [del, get]
  | cons p m ih =>
    obtain ⟨a, b⟩ := p
    have h' : ¬ y = x := fun e => h e.symm
    by_cases h1 : a = x
    · subst h1; simp [del, get, h, ih]
    · by_cases h2 : a = y
      · subst h2; simp [del, get, h']
      · simp [del, get, h1, h2, ih]

theorem get_del (m : List (α × β)) (x y : α) :
    get (del m x) y = if x = y then none else get m y := by
  by_cases h : x = y
  · subst h; simp
  · simp [h, get_del_ne _ _ _ h]

theorem get_mapv (f : α → β → β) (m : List (α × β)) (x : α) :
    get (mapv f m) x = (get m x).map (f x) := by
  induction m with
  | nil => simp [mapv, get]
  | cons p m ih =>
    obtain ⟨a, b⟩ := p
    by_cases h : a = x
    · subst h; simp [mapv, get]
    · simp [mapv, get, h, ih]

theorem get_some_mem (m : List (α × β)) (x : α) (v : β) (h : get m x = some v) : (x, v) ∈ m := by
  induction m with
  | nil => simp [get] at h
  | cons p m ih =>
    obtain ⟨a, b⟩ := p
    by_cases e : a = x
    · subst e; simp [get] at h; subst h; simp
    · simp [get, e] at h; exact List.mem_cons_of_mem _ (ih h)

end Ldlm.AMap
