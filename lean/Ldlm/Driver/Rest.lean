import Ldlm.Model.Rest
import Ldlm.Driver.Seq
/-! `driver rest`: line protocol of the REST-gateway correspondence check (model M4).
`rcfg timeout=<ns> dlt=<ns> noclear=<0|1> shards=<n>`, then one operation per line, `end`. -/
namespace Ldlm.Driver
open Ldlm.Core Ldlm.Rest

def genCookie (n : Nat) : Str := 82 :: natDigits n       -- "R<n>"
def genConn (n : Nat) : Str := 99 :: natDigits n         -- "c<n>"

def optTok (t : String) : Option Str := if t = "-" then none else some (decTok t)

def parseReq (ws : List String) : Option (Option Req) :=
  match ws with
  | ["bad"] => some none
  | ["trylock", n, sz, lt] => some (some (.tryLock (decTok n) (optInt sz) (optInt lt)))
  | ["unlock", n, k] => some (some (.unlock (decTok n) (decTok k)))
  | ["renew", n, k, t] => (t.toInt?).map fun t => some (.renew (decTok n) (decTok k) t)
  | _ => none

def parseROp (ws : List String) : Option ROp :=
  match ws with
  | ["create"] => some .create
  | ["delete", ck] => some (.delete (optTok ck))
  | "req" :: ck :: rest => (parseReq rest).map fun r => .req (optTok ck) r
  | ["gconnect"] => some .gconnect
  | "greq" :: sid :: rest => match parseReq rest with
    | some (some q) => some (.greq (decTok sid) q)
    | _ => none
  | ["gend", sid] => some (.gend (decTok sid))
  | ["adv", d] => d.toNat?.map .adv
  | _ => none

def showToks (l : List Str) : String := String.intercalate "," ((l.map encTok).mergeSort strLe)

def rrespLine {M} (o : MapOps M) (s : RSt M) (r : RResp) : String :=
  let (ok, key, err) := match r.resp with
    | none => ("-", "-", "-")
    | some x => (if x.ok then "1" else "0", (if x.ok ∧ x.key ≠ [] then encTok x.key else "-"), (wireCode x.err).getD "-")
  s!"h={r.http} ok={ok} key={key} err={err} ck={match r.cookie with | some c => encTok c | none => "-"} ended=[{showToks r.ended}] tie={if r.tie then 1 else 0}" ++
  s!" | L={showSess s.core.sessions} | T={showTable (o.toList s.core.locks)} | TM={showTimers s.core.timers} | RS=[{showToks (s.rs.map (·.1))}] | now={s.core.now}"

partial def restLoop {M} (o : MapOps M) (c : Cfg) (rc : RCfg) (h : IO.FS.Stream) (out : IO.FS.Stream) (s : RSt M) : IO Unit := do
  let line ← h.getLine
  if line.isEmpty then return ()
  let ws := (line.trimAscii.toString.splitOn " ").filter (· ≠ "")
  match ws with
  | ["end"] => out.putStrLn "end-ok"; out.flush; return ()
  | _ =>
    match parseROp ws with
    | none => out.putStrLn "bad-op"; out.flush; restLoop o c rc h out s
    | some op =>
      let (s', r) := rstep o c rc s op
      out.putStrLn (rrespLine o s' r)
      out.flush
      restLoop o c rc h out s'

partial def restMain : IO Unit := do
  let h ← IO.getStdin
  let out ← IO.getStdout
  let line ← h.getLine
  if line.isEmpty then return ()
  let ws := (line.trimAscii.toString.splitOn " ").filter (· ≠ "")
  match ws with
  | "rcfg" :: rest =>
    let c : Cfg := { gcInterval := kvNat rest "gcint" 0, gcMinIdle := kvNat rest "gcidle" 0,
                     dlt := kvNat rest "dlt" (600 * sec), noClear := kvNat rest "noclear" 0 = 1,
                     hasFile := false, genKey := genKey }
    let rc : RCfg := { timeout := kvNat rest "timeout" (600 * sec), genCookie := genCookie, genConn := genConn }
    out.putStrLn "cfg-ok"; out.flush
    let o := shardedOps sumHash (kvNat rest "shards" 4)
    restLoop o c rc h out (Rest.init o c)
    restMain
  | _ => out.putStrLn "bad-cfg"; out.flush; restMain

end Ldlm.Driver
