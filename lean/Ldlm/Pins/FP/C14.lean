import Ldlm.Generated.Facts
/-!
Source fingerprints for C14: the functions of /repo its models were written against (verifcfg.FPMAP).
`Facts.fp_*` is regenerated from the working tree by every check (first 16 hex digits of SHA-256 of the
normalised signature and body); the right-hand sides were copied from a reviewed tree by tools/mkfp.py and
are NOT regenerated. A pin that no longer checks = this function changed since the models were written.
-/
namespace Ldlm.Pins.FP.C14
open Ldlm

/-- net/grpc/grpc.go: Service.Lock -/
theorem fp_net_grpc_grpc_Service_Lock : Facts.fp_net_grpc_grpc_Service_Lock = "39132fa414ac5180" := rfl
/-- net/grpc/grpc.go: Service.Unlock -/
theorem fp_net_grpc_grpc_Service_Unlock : Facts.fp_net_grpc_grpc_Service_Unlock = "ffa33f17adce51a7" := rfl
/-- net/grpc/grpc.go: Service.TryLock -/
theorem fp_net_grpc_grpc_Service_TryLock : Facts.fp_net_grpc_grpc_Service_TryLock = "5e23c58e7e30fa90" := rfl
/-- net/grpc/grpc.go: Service.Renew -/
theorem fp_net_grpc_grpc_Service_Renew : Facts.fp_net_grpc_grpc_Service_Renew = "d5bbb46706d86bd2" := rfl
/-- net/grpc/grpc.go: lockErrToProtoBuffErr -/
theorem fp_net_grpc_grpc_lockErrToProtoBuffErr : Facts.fp_net_grpc_grpc_lockErrToProtoBuffErr = "15bd3af5d2e0d8ac" := rfl
/-- server/server.go: LockServer.Lock -/
theorem fp_server_server_LockServer_Lock : Facts.fp_server_server_LockServer_Lock = "5d4c78175f668159" := rfl
/-- server/server.go: LockServer.TryLock -/
theorem fp_server_server_LockServer_TryLock : Facts.fp_server_server_LockServer_TryLock = "0ae939aca2e2a058" := rfl
/-- server/server.go: LockServer.Unlock -/
theorem fp_server_server_LockServer_Unlock : Facts.fp_server_server_LockServer_Unlock = "b03d29042086a906" := rfl
/-- server/server.go: LockServer.Renew -/
theorem fp_server_server_LockServer_Renew : Facts.fp_server_server_LockServer_Renew = "ec4eb8cf57e4c2a1" := rfl
/-- client/client.go: Client.Lock -/
theorem fp_client_client_Client_Lock : Facts.fp_client_client_Client_Lock = "e71d22a67f023540" := rfl
/-- client/client.go: Client.TryLock -/
theorem fp_client_client_Client_TryLock : Facts.fp_client_client_Client_TryLock = "4aba6dff97c20c81" := rfl
/-- client/client.go: Client.Unlock -/
theorem fp_client_client_Client_Unlock : Facts.fp_client_client_Client_Unlock = "1f8ccbac49273c63" := rfl
/-- client/client.go: Client.Renew -/
theorem fp_client_client_Client_Renew : Facts.fp_client_client_Client_Renew = "f35ff2abe5c6d5c9" := rfl
/-- client/client.go: rpcErrorToError -/
theorem fp_client_client_rpcErrorToError : Facts.fp_client_client_rpcErrorToError = "470c66abd9adc4f1" := rfl
/-- client/client.go: rpcWithRetry -/
theorem fp_client_client_rpcWithRetry : Facts.fp_client_client_rpcWithRetry = "896d805031c93a4d" := rfl
/-- net/rest/rest.go: Run -/
theorem fp_net_rest_rest_Run : Facts.fp_net_rest_rest_Run = "7444684083624d1f" := rfl
/-- net/rest/rest.go: NewRestServer -/
theorem fp_net_rest_rest_NewRestServer : Facts.fp_net_rest_rest_NewRestServer = "0e5e4a42d37dd44d" := rfl

end Ldlm.Pins.FP.C14
