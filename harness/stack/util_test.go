// Helpers of the end-to-end "stack" stream: build the real binaries of /repo, run them over
// loopback, talk to them with real clients (raw gRPC, REST over net/http, the Go client, the admin
// tool over its unix socket) and decode the state file they leave behind.
package stack

import (
	"bytes"
	"context"
	"crypto/tls"
	"crypto/x509"
	"encoding/json"
	"fmt"
	"io"
	"net"
	"net/http"
	"net/http/cookiejar"
	"os"
	"os/exec"
	"path/filepath"
	"regexp"
	"sort"
	"strconv"
	"strings"
	"sync"
	"sync/atomic"
	"syscall"
	"testing"
	"time"

	"google.golang.org/grpc"
	"google.golang.org/grpc/credentials"
	"google.golang.org/grpc/credentials/insecure"

	pb "github.com/imoore76/ldlm/protos"
	"github.com/imoore76/ldlm/server/session/store"

	"verif/harness/common"
)

// repoDir is the tree the binaries are built from: /repo, unless VERIF_STACK_REPO names another
// checkout (used by the self-tests of this driver: a mutated or a repaired copy of the tree).
var repoDir = func() string {
	if d := os.Getenv("VERIF_STACK_REPO"); d != "" {
		return d
	}
	return "/repo"
}()

const certDir = "/repo/testcerts"

// ---------------------------------------------------------------- scratch space and binaries

var (
	rootDir   string // scratch root of this test process (tmpfs), removed by TestStack
	buildOnce sync.Once
	buildErr  error
	serverBin string
	lockBin   string
	instSeq   atomic.Int64
)

func goTool() string {
	if p, err := exec.LookPath("go1.26.8"); err == nil {
		return p
	}
	return "go"
}

// cleanEnv is the environment of every child: nothing that configures ldlm through LDLM_*
// variables, and the toolchain pinned as the harness rules say.
func cleanEnv(extra ...string) []string {
	drop := []string{"LDLM_", "GOFLAGS=", "GOPROXY=", "GOSUMDB=", "GOTOOLCHAIN=", "CGO_ENABLED=", "HTTP_PROXY=", "HTTPS_PROXY=", "http_proxy=", "https_proxy="}
	env := []string{}
outer:
	for _, kv := range os.Environ() {
		for _, d := range drop {
			if strings.HasPrefix(kv, d) {
				continue outer
			}
		}
		env = append(env, kv)
	}
	return append(env, extra...)
}

// buildBinaries compiles /repo/cmd/server and /repo/cmd/lock from the current working tree, once
// per test process. No overlay is passed: the binaries are the unmodified tree.
func buildBinaries(t *testing.T) {
	t.Helper()
	buildOnce.Do(func() {
		bin := filepath.Join(rootDir, "bin")
		if err := os.MkdirAll(bin, 0o755); err != nil {
			buildErr = err
			return
		}
		serverBin = filepath.Join(bin, "ldlm-server")
		lockBin = filepath.Join(bin, "ldlm-lock")
		for _, b := range [][2]string{{serverBin, repoDir + "/cmd/server"}, {lockBin, repoDir + "/cmd/lock"}} {
			cmd := exec.Command(goTool(), "build", "-o", b[0], b[1])
			cmd.Dir = repoDir
			cmd.Env = cleanEnv("GOFLAGS=-mod=mod", "GOPROXY=off", "GOSUMDB=off", "GOTOOLCHAIN=local", "CGO_ENABLED=0")
			if out, err := cmd.CombinedOutput(); err != nil {
				buildErr = fmt.Errorf("go build %s: %v\n%s", b[1], err, out)
				return
			}
		}
	})
	if buildErr != nil {
		t.Fatal(buildErr)
	}
}

func newInstanceDir(t *testing.T) string {
	d := filepath.Join(rootDir, fmt.Sprintf("i%d", instSeq.Add(1)))
	if err := os.MkdirAll(d, 0o755); err != nil {
		t.Fatal(err)
	}
	return d
}

func freePort(t *testing.T) int {
	l, err := net.Listen("tcp", "127.0.0.1:0")
	if err != nil {
		t.Fatal(err)
	}
	defer l.Close()
	return l.Addr().(*net.TCPAddr).Port
}

// ---------------------------------------------------------------- server process

type syncBuf struct {
	mu sync.Mutex
	b  bytes.Buffer
}

func (s *syncBuf) Write(p []byte) (int, error) { s.mu.Lock(); defer s.mu.Unlock(); return s.b.Write(p) }
func (s *syncBuf) String() string              { s.mu.Lock(); defer s.mu.Unlock(); return s.b.String() }

type srvCfg struct {
	rest  bool     // enable the REST listener
	dir   string   // instance directory ("" = a new one)
	state string   // state file path ("" = <dir>/state.bin)
	sock  string   // IPC socket path ("" = <dir>/ipc<n>.sock)
	extra []string // further flags (security, server tuning)
}

type proc struct {
	cmd      *exec.Cmd
	out      *syncBuf
	done     chan struct{}
	args     []string
	dir      string
	grpcAddr string
	restAddr string // "" when REST is off
	sock     string
	state    string
	started  bool // both listeners accepted a TCP connection
	killed   atomic.Bool
}

var sockSeq atomic.Int64

// startServer runs the real server binary and waits until its listeners accept TCP connections or
// the process exits (p.started tells which). All its output is kept in p.out.
func startServer(t *testing.T, c srvCfg) *proc {
	t.Helper()
	buildBinaries(t)
	if c.dir == "" {
		c.dir = newInstanceDir(t)
	}
	if c.state == "" {
		c.state = filepath.Join(c.dir, "state.bin")
	}
	p := &proc{out: &syncBuf{}, done: make(chan struct{}), dir: c.dir, state: c.state}
	p.grpcAddr = fmt.Sprintf("127.0.0.1:%d", freePort(t))
	p.sock = filepath.Join(c.dir, fmt.Sprintf("ipc%d.sock", sockSeq.Add(1)))
	if c.sock != "" {
		p.sock = c.sock
	}
	p.args = []string{"--listen_address", p.grpcAddr, "--ipc_socket_file", p.sock, "--state_file", p.state}
	if c.rest {
		p.restAddr = fmt.Sprintf("127.0.0.1:%d", freePort(t))
		p.args = append(p.args, "--rest_listen_address", p.restAddr)
	}
	p.args = append(p.args, c.extra...)
	p.cmd = exec.Command(serverBin, p.args...)
	p.cmd.Dir = c.dir
	p.cmd.Env = cleanEnv()
	p.cmd.Stdout, p.cmd.Stderr = p.out, p.out
	p.cmd.SysProcAttr = &syscall.SysProcAttr{Setpgid: true, Pdeathsig: syscall.SIGKILL}
	if err := p.cmd.Start(); err != nil {
		t.Fatalf("cannot start %s: %v", serverBin, err)
	}
	go func() { p.cmd.Wait(); close(p.done) }()
	t.Cleanup(p.kill)

	deadline := time.Now().Add(15 * time.Second)
	for time.Now().Before(deadline) {
		if p.exited() {
			return p
		}
		if tcpUp(p.grpcAddr) && (p.restAddr == "" || tcpUp(p.restAddr)) {
			p.started = true
			return p
		}
		time.Sleep(20 * time.Millisecond)
	}
	return p
}

func tcpUp(addr string) bool {
	c, err := net.DialTimeout("tcp", addr, time.Second)
	if err != nil {
		return false
	}
	c.Close()
	return true
}

func (p *proc) exited() bool {
	select {
	case <-p.done:
		return true
	default:
		return false
	}
}

func (p *proc) signal(sig syscall.Signal) error { return p.cmd.Process.Signal(sig) }

// waitExit waits for the process to end; ok=false means it is still running after the timeout.
func (p *proc) waitExit(timeout time.Duration) (code int, signaled bool, ok bool) {
	select {
	case <-p.done:
	case <-time.After(timeout):
		return 0, false, false
	}
	ws := p.cmd.ProcessState
	if st, isWs := ws.Sys().(syscall.WaitStatus); isWs && st.Signaled() {
		return -1, true, true
	}
	return ws.ExitCode(), false, true
}

// kill takes the whole process group down; safe to call more than once and on a dead process.
func (p *proc) kill() {
	if p.cmd.Process == nil {
		return
	}
	if !p.exited() {
		p.killed.Store(true)
		syscall.Kill(-p.cmd.Process.Pid, syscall.SIGKILL)
		p.cmd.Process.Kill()
	}
	select {
	case <-p.done:
	case <-time.After(5 * time.Second):
	}
}

// stop is the orderly end of a server the scenario is done with (SIGTERM, then the hammer).
func (p *proc) stop() {
	if !p.exited() {
		p.signal(syscall.SIGTERM)
		if _, _, ok := p.waitExit(10 * time.Second); !ok {
			p.kill()
		}
	}
}

func (p *proc) logTail(n int) []string {
	lines := strings.Split(strings.TrimRight(p.out.String(), "\n"), "\n")
	if len(lines) > n {
		lines = lines[len(lines)-n:]
	}
	return lines
}

func (p *proc) crashed() bool {
	s := p.out.String()
	return strings.Contains(s, "panic:") || strings.Contains(s, "fatal error")
}

// ---------------------------------------------------------------- admin tool

type adminOut struct {
	Stdout   string `json:"stdout"`
	Stderr   string `json:"stderr"`
	Code     int    `json:"exit_code"`
	TimedOut bool   `json:"timed_out,omitempty"`
}

func runAdmin(sock string, args ...string) adminOut {
	ctx, cancel := context.WithTimeout(context.Background(), 10*time.Second)
	defer cancel()
	cmd := exec.CommandContext(ctx, lockBin, append([]string{"--socket", sock}, args...)...)
	cmd.Env = cleanEnv()
	cmd.SysProcAttr = &syscall.SysProcAttr{Setpgid: true, Pdeathsig: syscall.SIGKILL}
	var so, se bytes.Buffer
	cmd.Stdout, cmd.Stderr = &so, &se
	err := cmd.Run()
	o := adminOut{Stdout: so.String(), Stderr: se.String()}
	if ctx.Err() != nil {
		o.TimedOut = true
		o.Code = -1
		return o
	}
	if err != nil {
		if ee, ok := err.(*exec.ExitError); ok {
			o.Code = ee.ExitCode()
		} else {
			o.Code = -2
			o.Stderr += "\n[harness] " + err.Error()
		}
	}
	return o
}

// A hold as every observation channel reports it.
type hold struct {
	Name string `json:"name"`
	Key  string `json:"key"`
	Size int32  `json:"size"`
}

func (h hold) String() string { return fmt.Sprintf("%s/%s/%d", h.Name, h.Key, h.Size) }

func sortHolds(hs []hold) []hold {
	sort.Slice(hs, func(i, j int) bool { return hs[i].String() < hs[j].String() })
	return hs
}

func holdStrings(hs []hold) []string {
	out := []string{}
	for _, h := range sortHolds(append([]hold{}, hs...)) {
		out = append(out, h.String())
	}
	return out
}

var listLine = regexp.MustCompile(`^\{Name: (.*), Key: (.*), Size: (-?\d+)\}$`)

// adminList runs `ldlm-lock list` and parses its lines. ok=false when the tool failed or printed
// something that is neither a hold line nor "No locks found".
func adminList(sock string) (hs []hold, raw adminOut, ok bool) {
	raw = runAdmin(sock, "list")
	if raw.Code != 0 {
		return nil, raw, false
	}
	lines := strings.Split(strings.TrimRight(raw.Stdout, "\n"), "\n")
	if len(lines) == 1 && lines[0] == "No locks found" {
		return []hold{}, raw, true
	}
	for _, l := range lines {
		m := listLine.FindStringSubmatch(l)
		if m == nil {
			return nil, raw, false
		}
		sz, _ := strconv.Atoi(m[3])
		hs = append(hs, hold{m[1], m[2], int32(sz)})
	}
	return sortHolds(hs), raw, true
}

// ---------------------------------------------------------------- state file

// readState decodes a COPY of the state file with the repo's own decoder.
func readState(path string) (hs []hold, sessions int, err error) {
	b, err := os.ReadFile(path)
	if err != nil {
		return nil, 0, err
	}
	cp := filepath.Join(filepath.Dir(path), fmt.Sprintf("copy%d.bin", instSeq.Add(1)))
	if err := os.WriteFile(cp, b, 0o644); err != nil {
		return nil, 0, err
	}
	defer os.Remove(cp)
	st, err := store.New(cp)
	if err != nil {
		return nil, 0, err
	}
	defer st.Close()
	defer func() {
		if r := recover(); r != nil {
			err = fmt.Errorf("store.Read panicked: %v", r)
		}
	}()
	m, err := st.Read()
	if err != nil {
		return nil, 0, err
	}
	for _, ls := range m {
		for _, l := range ls {
			hs = append(hs, hold{l.Name(), l.Key(), l.Size()})
		}
	}
	return sortHolds(hs), len(m), nil
}

func containsHold(hs []hold, h hold) bool {
	for _, x := range hs {
		if x == h {
			return true
		}
	}
	return false
}

func containsNameKey(hs []hold, name, key string) bool {
	for _, x := range hs {
		if x.Name == name && x.Key == key {
			return true
		}
	}
	return false
}

// ---------------------------------------------------------------- test certificates

const (
	certServer    = certDir + "/server_cert.pem"
	keyServer     = certDir + "/server_key.pem"
	certCA        = certDir + "/ca_cert.pem"
	certClientCA  = certDir + "/client_ca_cert.pem"
	certClient    = certDir + "/client_cert.pem"
	keyClient     = certDir + "/client_key.pem"
	tlsServerName = "127.0.0.1"
)

// clientTLS trusts the test CA that signed the server certificate and optionally presents the test
// client certificate.
func clientTLS(t *testing.T, withClientCert bool) *tls.Config {
	pem, err := os.ReadFile(certCA)
	if err != nil {
		t.Fatal(err)
	}
	pool := x509.NewCertPool()
	if !pool.AppendCertsFromPEM(pem) {
		t.Fatal("cannot load " + certCA)
	}
	c := &tls.Config{RootCAs: pool, ServerName: tlsServerName}
	if withClientCert {
		cc, err := tls.LoadX509KeyPair(certClient, keyClient)
		if err != nil {
			t.Fatal(err)
		}
		c.Certificates = []tls.Certificate{cc}
	}
	return c
}

// ---------------------------------------------------------------- gRPC client

type grpcConn struct {
	cc *grpc.ClientConn
	c  pb.LDLMClient
}

// dialGrpc opens one client connection (= one server session once the first RPC went out).
func dialGrpc(t *testing.T, addr string, tc *tls.Config) *grpcConn {
	t.Helper()
	creds := insecure.NewCredentials()
	if tc != nil {
		creds = credentials.NewTLS(tc)
	}
	cc, err := grpc.NewClient(addr, grpc.WithTransportCredentials(creds), grpc.WithNoProxy())
	if err != nil {
		t.Fatal(err)
	}
	g := &grpcConn{cc: cc, c: pb.NewLDLMClient(cc)}
	t.Cleanup(func() { cc.Close() })
	return g
}

func (g *grpcConn) close() { g.cc.Close() }

func i32(v int32) *int32 { return &v }

func rpcCtx(d time.Duration) (context.Context, context.CancelFunc) {
	return context.WithTimeout(context.Background(), d)
}

// ---------------------------------------------------------------- REST client

type restClient struct {
	base string
	hc   *http.Client
	auth *string           // Authorization header value (nil = header absent)
	hdr  map[string]string // further request headers
}

func newRestClient(addr string, tc *tls.Config) *restClient {
	jar, _ := cookiejar.New(nil)
	tr := &http.Transport{Proxy: nil, TLSClientConfig: tc, DisableKeepAlives: false}
	scheme := "http"
	if tc != nil {
		scheme = "https"
	}
	return &restClient{base: scheme + "://" + addr, hc: &http.Client{Jar: jar, Transport: tr, Timeout: 10 * time.Second}}
}

func (c *restClient) closeIdle() { c.hc.CloseIdleConnections() }

// withAuth shares the cookie jar (the session) but carries another Authorization header / headers.
func (c *restClient) withAuth(auth *string, hdr map[string]string) *restClient {
	return &restClient{base: c.base, hc: c.hc, auth: auth, hdr: hdr}
}

type restResp struct {
	Status  int            `json:"status"`
	Body    string         `json:"body"`
	J       map[string]any `json:"-"`
	Cookies []string       `json:"set_cookie_names,omitempty"`
	Err     string         `json:"transport_error,omitempty"`
}

func (r restResp) flag(name string) bool {
	b, _ := r.J[name].(bool)
	return b
}
func (r restResp) str(name string) string {
	s, _ := r.J[name].(string)
	return s
}

// errCode returns the JSON error.code (string form; a number is rendered in decimal).
func (r restResp) errCode() (code string, present bool) {
	e, ok := r.J["error"]
	if !ok || e == nil {
		return "", false
	}
	m, ok := e.(map[string]any)
	if !ok {
		return fmt.Sprint(e), true
	}
	switch v := m["code"].(type) {
	case string:
		return v, true
	case float64:
		return strconv.Itoa(int(v)), true
	case nil:
		return "", true
	default:
		return fmt.Sprint(v), true
	}
}

func (c *restClient) do(method, path string, body any) restResp {
	var rd io.Reader
	if body != nil {
		b, _ := json.Marshal(body)
		rd = bytes.NewReader(b)
	}
	req, err := http.NewRequest(method, c.base+path, rd)
	if err != nil {
		return restResp{Err: err.Error()}
	}
	if body != nil {
		req.Header.Set("Content-Type", "application/json")
	}
	if c.auth != nil {
		req.Header["Authorization"] = []string{*c.auth}
	}
	for k, v := range c.hdr {
		req.Header.Set(k, v)
	}
	resp, err := c.hc.Do(req)
	if err != nil {
		return restResp{Err: err.Error()}
	}
	defer resp.Body.Close()
	b, _ := io.ReadAll(resp.Body)
	out := restResp{Status: resp.StatusCode, Body: string(b)}
	for _, ck := range resp.Cookies() {
		if ck.Value != "" {
			out.Cookies = append(out.Cookies, ck.Name)
		}
	}
	var j map[string]any
	if json.Unmarshal(b, &j) == nil {
		out.J = j
	}
	return out
}

// Request bodies: optional fields are pointers so that "absent" differs from zero.
type restLockBody struct {
	Name               string `json:"name"`
	LockTimeoutSeconds *int32 `json:"lock_timeout_seconds,omitempty"`
	Size               *int32 `json:"size,omitempty"`
}
type restUnlockBody struct {
	Name string `json:"name"`
	Key  string `json:"key"`
}
type restRenewBody struct {
	Name               string `json:"name"`
	Key                string `json:"key"`
	LockTimeoutSeconds *int32 `json:"lock_timeout_seconds,omitempty"`
}

func (c *restClient) createSession() restResp { return c.do("POST", "/session", nil) }
func (c *restClient) deleteSession() restResp { return c.do("DELETE", "/session", nil) }
func (c *restClient) tryLock(name string, size, lockTO *int32) restResp {
	return c.do("POST", "/v1/lock", restLockBody{name, lockTO, size})
}
func (c *restClient) unlock(name, key string) restResp {
	return c.do("POST", "/v1/unlock", restUnlockBody{name, key})
}
func (c *restClient) renew(name, key string, lockTO *int32) restResp {
	return c.do("POST", "/v1/renew", restRenewBody{name, key, lockTO})
}

// ---------------------------------------------------------------- misc

func shuffle[T any](r *common.Rng, xs []T) {
	for i := len(xs) - 1; i > 0; i-- {
		j := r.Intn(i + 1)
		xs[i], xs[j] = xs[j], xs[i]
	}
}

func randName(r *common.Rng, prefix string) string {
	const al = "abcdefghijklmnopqrstuvwxyz0123456789"
	b := []byte(prefix + "-")
	for i := 0; i < 6; i++ {
		b = append(b, al[r.Intn(len(al))])
	}
	return string(b)
}
