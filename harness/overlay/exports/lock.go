// Added to package lock through `go test -overlay` by /verif (guard "verif"); never part of /repo.
package lock

import (
	"reflect"
	"slices"
	"time"
	"unsafe"
)

type VerifLock struct {
	Name         string
	Size         int32
	Keys         []string
	LastAccessed time.Time
	Deleted      bool
}

// VerifTable is a snapshot of the lock table (every shard), for the three-view comparison.
func (m *Manager) VerifTable() []VerifLock {
	out := []VerifLock{}
	// the idle clock: read from the field when it is a time.Time; a tree that keeps it in another
	// representation still has to compile, so then the public listing (Manager.Locks) supplies it
	var public map[string]time.Time
	if f, ok := reflect.TypeOf(ManagedLock{}).FieldByName("lastAccessed"); !ok || f.Type != reflect.TypeOf(time.Time{}) {
		public = map[string]time.Time{}
		for _, li := range m.Locks() {
			public[li.Name] = li.LastAccessed
		}
	}
	last := func(l *ManagedLock) time.Time {
		if public != nil {
			return public[l.Name]
		}
		f := reflect.ValueOf(l).Elem().FieldByName("lastAccessed")
		return *(*time.Time)(unsafe.Pointer(f.UnsafeAddr()))
	}
	for _, shard := range m.shards {
		shard.RLock()
		for _, l := range shard.locks { // the object's own Name field: the map may be keyed by something else
			l.keyMtx.Lock()
			out = append(out, VerifLock{Name: l.Name, Size: l.size, Keys: slices.Clone(l.keys), LastAccessed: last(l), Deleted: l.deleted})
			l.keyMtx.Unlock()
		}
		shard.RUnlock()
	}
	return out
}

// VerifGc runs one garbage-collection pass with the given minimum idle time.
func (m *Manager) VerifGc(d time.Duration) { m.lockGc(d) }
