// Added to package ipc through `go test -overlay` by /verif (guard "verif"); never part of /repo.
package ipc

// VerifNew returns an IPC method receiver bound to l without registering it with net/rpc.
func VerifNew(l LockServer) *IPC { return &IPC{lckSrv: l} }
