import Ldlm.Proofs.CoreWait
import Ldlm.Proofs.CoreSU
/-! The blocked calls of M2 carry pairwise distinct request numbers, all below the request counter - for
every history, restarts included. It makes "the call" in the wait time-out theorems of C03 well defined. -/
namespace Ldlm.Core
open Ldlm.AMap
variable {M : Type} {o : MapOps M} {c : Cfg}

def PU (s : St M) : Prop := (s.pending.map (·.req)).Nodup ∧ ∀ p ∈ s.pending, p.req < s.nreq

/-- the blocked calls only went away, the request counter did not go back -/
def Shr (s s' : St M) : Prop := s'.pending.Sublist s.pending ∧ s.nreq ≤ s'.nreq

theorem Shr.refl (s : St M) : Shr s s := ⟨List.Sublist.refl _, Nat.le_refl _⟩
theorem Shr.trans {a b d : St M} (h1 : Shr a b) (h2 : Shr b d) : Shr a d :=
  ⟨h2.1.trans h1.1, Nat.le_trans h1.2 h2.2⟩
theorem Shr.same {s s' : St M} (h1 : s'.pending = s.pending) (h2 : s'.nreq = s.nreq) : Shr s s' :=
  ⟨by rw [h1]; exact List.Sublist.refl _, by rw [h2]; exact Nat.le_refl _⟩

theorem PU.shrink {s s' : St M} (h : PU s) (r : Shr s s') : PU s' :=
  ⟨(r.1.map _).nodup h.1, fun p hp => Nat.lt_of_lt_of_le (h.2 p (r.1.subset hp)) r.2⟩

theorem shr_book (s : St M) (sid : Sid) (n k : Str) (sz : Int) (lt : Option Int) : Shr s (book s sid n k sz lt) :=
  Shr.same (pending_book s sid n k sz lt) (nreq_book s sid n k sz lt)

theorem shr_handOver (s : St M) (n : Str) (r : LockRec) : Shr s (handOver o s n r).1 := by
  unfold handOver
  split
  · exact Shr.same rfl rfl
  · simp only
    refine ⟨?_, ?_⟩
    · rw [pending_book]; exact List.filter_sublist
    · rw [nreq_book]; exact Nat.le_refl _

theorem shr_mgrUnlock (s : St M) (n k : Str) : Shr s (mgrUnlock o s n k).1 := by
  unfold mgrUnlock
  split
  · exact Shr.refl s
  · simp only
    split
    · exact shr_handOver _ _ _
    · exact Shr.same rfl rfl

theorem shr_clearHolds (hs : List Hold) : ∀ (t : St M) (ev : List Event),
    Shr t (hs.foldl (fun (acc : St M × List Event) h =>
      let (s', ok, _, ev) := mgrUnlock o acc.1 h.name h.key
      let s' := if ok then { s' with timers := del s'.timers (tkey h.name h.key) } else s'
      (s', acc.2 ++ ev)) (t, ev)).1 := by
  induction hs with
  | nil => intro t ev; exact Shr.refl t
  | cons x hs ih =>
    intro t ev
    simp only [List.foldl_cons]
    refine Shr.trans ?_ (ih _ _)
    have := shr_mgrUnlock (o := o) t x.name x.key
    split
    · exact Shr.trans this (Shr.same rfl rfl)
    · exact this

theorem pending_restoreOne (s : St M) (sid : Sid) (x : Hold) : (restoreOne o c s sid x).pending = s.pending := by
  unfold restoreOne
  simp only
  split
  · rfl
  · split <;> rfl

theorem pu_blocks : Blocks (o := o) (c := c) PU where
  connect := by
    intro s sid h
    simp only [step]
    split
    · exact h.shrink (Shr.same rfl rfl)
    · exact h
  abandon := by
    intro s p e h
    exact h.shrink ⟨by unfold abandon; exact List.filter_sublist, Nat.le_refl _⟩
  destroy := by
    intro s sid h
    unfold destroy
    split
    · exact h
    · simp only
      have h1 : PU (save { s with sessions := del s.sessions sid }) := h.shrink (Shr.same rfl rfl)
      split
      · exact h1
      · exact h1.shrink (shr_clearHolds _ _ [])
  tryLock := by
    intro s sid n sz lt h
    have h0 : Shr s { s with nreq := s.nreq + 1 } := ⟨List.Sublist.refl _, Nat.le_succ _⟩
    unfold srvTryLock
    simp only
    split
    · exact h.shrink h0
    · split
      · exact h.shrink h0
      · split
        · exact h.shrink h0
        · split
          · exact h.shrink h0
          · split
            · exact h.shrink (Shr.trans h0 (Shr.trans (Shr.same (s' := { s with nreq := s.nreq + 1, locks := _ }) rfl rfl) (shr_book _ _ _ _ _ _)))
            · exact h.shrink (Shr.trans h0 (Shr.same rfl rfl))
  lock := by
    intro s sid n sz lt wt h
    have h0 : Shr s { s with nreq := s.nreq + 1 } := ⟨List.Sublist.refl _, Nat.le_succ _⟩
    unfold srvLock
    simp only
    split
    · exact h.shrink h0
    · split
      · exact h.shrink h0
      · split
        · exact h.shrink h0
        · split
          · exact h.shrink h0
          · split
            · exact h.shrink h0
            · split
              · exact h.shrink (Shr.trans h0 (Shr.trans (Shr.same (s' := { s with nreq := s.nreq + 1, locks := _ }) rfl rfl) (shr_book _ _ _ _ _ _)))
              · -- the call joins the blocked ones under the old counter value, which no blocked call carries
                refine ⟨?_, ?_⟩
                · simp only [List.map_append, List.map_cons, List.map_nil]
                  refine List.nodup_append.mpr ⟨h.1, by simp, ?_⟩
                  intro a ha b hb
                  simp only [List.mem_singleton] at hb
                  obtain ⟨p, hp, rfl⟩ := List.mem_map.mp ha
                  have := h.2 p hp
                  omega
                · intro p hp
                  rcases List.mem_append.mp hp with hp | hp
                  · have := h.2 p hp; simp only; omega
                  · simp only [List.mem_singleton] at hp; subst hp; simp only; omega
  unlock := by
    intro s n k h
    unfold srvUnlock
    simp only
    have := (h.shrink (Shr.same (s' := { s with timers := del s.timers (tkey n k) }) rfl rfl)).shrink (shr_mgrUnlock (o := o) _ n k)
    split
    · exact this.shrink (Shr.same rfl rfl)
    · exact this
  renew := by
    intro s n k t h
    unfold srvRenew
    split
    · exact h
    · split
      · exact h
      · exact h.shrink (Shr.same rfl rfl)
  tick := by intro s t h; exact h.shrink (Shr.same rfl rfl)
  fire := by
    intro s tk tm _ h
    unfold fireLease
    simp only
    exact (h.shrink (shr_mgrUnlock (o := o) s tm.name tm.key)).shrink (Shr.same rfl rfl)
  gc := by intro s mi g h; exact h.shrink (Shr.same rfl rfl)

theorem pu_restart (s : St M) : PU (restart o c s).1 := by
  have : (restart o c s).1.pending = [] := by
    unfold restart
    simp only
    apply restoreAll_induct (o := o) (c := c) (fun t => t.pending = [])
    · intro t sid x ht; rw [pending_restoreOne]; exact ht
    · rfl
  unfold PU
  rw [this]
  exact ⟨by simp, by intro p hp; cases hp⟩

/-- every reachable state (any history, restarts included) -/
theorem run_pu (ops : List Op) : PU (run o c ops) :=
  pu_blocks.run (fun s _ => pu_restart s) ⟨by simp [init], by intro p hp; simp [init] at hp⟩ ops

/-- request numbers identify the blocked calls -/
theorem PU.unique {s : St M} (h : PU s) (p p' : Pending) (hp : p ∈ s.pending) (hp' : p' ∈ s.pending)
    (e : p'.req = p.req) : p' = p := by
  have key : ∀ (l : List Pending), (l.map (·.req)).Nodup → p ∈ l → p' ∈ l → p' = p := by
    intro l
    induction l with
    | nil => intro _ h1; cases h1
    | cons x l ih =>
      intro hn h1 h2
      simp only [List.map_cons, List.nodup_cons] at hn
      rcases List.mem_cons.mp h1 with a1 | a1
      · rcases List.mem_cons.mp h2 with a2 | a2
        · rw [a1, a2]
        · subst a1; exact absurd (List.mem_map.mpr ⟨p', a2, e⟩) hn.1
      · rcases List.mem_cons.mp h2 with a2 | a2
        · subst a2; exact (hn.1 (List.mem_map.mpr ⟨p, a1, e.symm⟩)).elim
        · exact ih hn.2 a1 a2
  exact key _ h.1 hp hp'

end Ldlm.Core
