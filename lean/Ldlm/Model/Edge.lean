import Ldlm.Generated.Facts
/-!
M6 — the edge decision tables, computed from the REGENERATED facts (`Generated/Facts.lean` is
rewritten from /repo's working tree by tools/facts on every run): gRPC error-code mapping, client
error mapping, validation guards, authentication decisions, TLS decision, closer order.
Core Lean only.
-/
namespace Ldlm.Edge
open Ldlm

def lookup (t : List (String × String)) (k : String) : Option String :=
  (t.find? (fun e => e.1 = k)).map (·.2)

/-- the error conditions C14 names -/
inductive Cond
  | lockDoesNotExist | invalidLockKey | lockWaitTimeout | lockDoesNotExistOrInvalidKey
  | lockSizeMismatch | invalidLockSize
deriving DecidableEq, Repr

def Cond.all : List Cond :=
  [.lockDoesNotExist, .invalidLockKey, .lockWaitTimeout, .lockDoesNotExistOrInvalidKey, .lockSizeMismatch, .invalidLockSize]

/-- the Go error value `LockServer` returns for the condition (M2's `Err`, rendered as the exported
Go identifier; tied to the code by seqdiff/stack, which classify errors with `errors.Is`) -/
def Cond.srvErr : Cond → String
  | .lockDoesNotExist => "lock.ErrLockDoesNotExist"
  | .invalidLockKey => "lock.ErrInvalidLockKey"
  | .lockWaitTimeout => "server.ErrLockWaitTimeout"
  | .lockDoesNotExistOrInvalidKey => "server.ErrLockDoesNotExistOrInvalidKey"
  | .lockSizeMismatch => "lock.ErrLockSizeMismatch"
  | .invalidLockSize => "lock.ErrInvalidLockSize"

/-- the code the property requires -/
def Cond.code : Cond → String
  | .lockDoesNotExist => "LockDoesNotExist"
  | .invalidLockKey => "InvalidLockKey"
  | .lockWaitTimeout => "LockWaitTimeout"
  | .lockDoesNotExistOrInvalidKey => "LockDoesNotExistOrInvalidKey"
  | .lockSizeMismatch => "LockSizeMismatch"
  | .invalidLockSize => "InvalidLockSize"

/-- `lockErrToProtoBuffErr`: the switch table, else the initialiser -/
def grpcCode (goErr : String) : Option String :=
  match lookup Facts.grpcErrTable goErr with
  | some c => some c
  | none => Facts.grpcErrDefault

/-- `rpcErrorToError` followed by resolving the client's exported alias to the server-side value -/
def clientErr (code : String) : Option String :=
  (lookup Facts.clientErrTable code).bind (lookup Facts.clientErrAliases)

/-- the enum number on the wire / the JSON name on REST: both come from the proto enum -/
def protoNumber (code : String) : Option Nat :=
  (Facts.protoErrorCodes.find? (fun e => e.1 = code)).map (·.2)

/-! ### authentication -/

/-- `ValidatePassword` (REST), as a function of the header and the configured password; `b64` is
Go's `base64.StdEncoding.DecodeString` (parameter: stdlib, trusted) -/
def splitOnFirst : List Char → Char → Option (List Char × List Char)
  | [], _ => none
  | c :: cs, sep => if c = sep then some ([], cs) else (splitOnFirst cs sep).map (fun p => (c :: p.1, p.2))

/-- `strings.Split(h, "Basic ")` has exactly two parts iff "Basic " occurs exactly once -/
def splitBasic (h : String) : Option (String × String) :=
  match h.splitOn "Basic " with
  | [a, b] => some (a, b)
  | _ => none

def restAuth (b64 : String → Option String) (password header : String) : Bool :=
  if password = "" then true else
  match splitBasic header with
  | none => false
  | some (_, cred) =>
    match b64 cred with
    | none => false
    | some dec =>
      match splitOnFirst dec.toList ':' with
      | none => false
      | some (_, pw) => String.ofList pw = password

/-- the gRPC interceptor: first `authorization` metadata value equals the password -/
def grpcAuth (password : String) (md : Option (List String)) : Bool :=
  match md with
  | none => false
  | some [] => false
  | some (v :: _) => v = password

/-! ### TLS decision (`GetTLSConfig`), abstracting file contents: `certOk` = the cert/key pair
loads, `caOk` = the CA file reads and parses -/

inductive TlsOutcome
  | error
  | plaintext
  | tls (requireClientCert : Bool)
deriving DecidableEq, Repr

def tlsDecision (cert key verify ca certOk caOk : Bool) : TlsOutcome :=
  let _ := key
  if cert ∧ ¬ certOk then .error else
  let useTls := cert
  if ca ∧ ¬ caOk then .error else
  let clientAuth := ca ∨ verify
  let useTls := useTls ∨ clientAuth
  if useTls ∧ ¬ cert then .error else
  if useTls then .tls clientAuth else .plaintext

end Ldlm.Edge
