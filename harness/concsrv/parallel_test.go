package concsrv

// C01 in real time: the controlled scheduler switches threads only where the lock table takes or drops a
// mutex; code that runs BEFORE any mutex (choosing the shard of a name) is never interleaved there. This
// part runs real goroutines in parallel on lock.Manager with the server's default shard count and counts
// the live holders of every name itself: never more than the size, and every key a successful TryLock
// returned unlocks exactly once.

import (
	"fmt"
	"sync"
	"sync/atomic"
	"time"

	"github.com/imoore76/ldlm/lock"

	"verif/harness/common"
)

func parallelCapacityProbe(res *common.Result, prop string) {
	dur := 1500 * time.Millisecond
	if common.Thorough() {
		dur = 20 * time.Second
	}
	for _, shards := range []uint32{16, 3} {
		m, closer := lock.NewManager(shards, time.Hour, time.Hour)
		const names, perName = 8, 2
		var live [names]atomic.Int32
		var grants, overs, lost atomic.Int64
		var first atomic.Value
		var wg sync.WaitGroup
		stop := time.Now().Add(dur)
		for n := 0; n < names; n++ {
			for g := 0; g < perName; g++ {
				wg.Add(1)
				go func(n, g int) {
					defer wg.Done()
					name, key := fmt.Sprintf("par-%d", n), fmt.Sprintf("k-%d-%d", n, g)
					for i := 0; time.Now().Before(stop); i++ {
						ok, err := m.TryLock(name, key, 1)
						if err != nil || !ok {
							continue
						}
						grants.Add(1)
						if c := live[n].Add(1); c > 1 {
							if overs.Add(1) == 1 {
								first.Store(fmt.Sprintf("%d shards: lock %q of size 1 has %d live holders (TryLock by goroutine %d, round %d, was granted while another holder had not unlocked)", shards, name, c, g, i))
							}
						}
						live[n].Add(-1)
						if un, uerr := m.Unlock(name, key); !un || uerr != nil {
							if lost.Add(1) == 1 && first.Load() == nil {
								first.Store(fmt.Sprintf("%d shards: Unlock(%q, %s) of a key that TryLock had just granted answered (%v, %v)", shards, name, key, un, uerr))
							}
						}
					}
				}(n, g)
			}
		}
		wg.Wait()
		closer()
		res.CountN(fmt.Sprintf("parallel-probe:grants:shards=%d", shards), int(grants.Load()))
		res.Eval(fmt.Sprintf("parallel-probe|shards=%d", shards), grants.Load() > 0)
		if overs.Load() > 0 || lost.Load() > 0 {
			res.Find(common.Finding{Kind: "violation", Property: prop, Signature: "conc:capacity:parallel-probe",
				What:   fmt.Sprintf("%d goroutines doing TryLock/Unlock on %d size-1 names of one lock.Manager in parallel for %v: %d grants exceeded the size, %d granted keys could not be unlocked; first: %v", names*perName, names, dur, overs.Load(), lost.Load(), first.Load()),
				Replay: map[string]any{"program": "8 names x 2 goroutines: loop { TryLock(name, own key, size 1); count; Unlock } on lock.NewManager(shards, 1h, 1h), real goroutines", "shards": shards, "grants": grants.Load(), "over_capacity": overs.Load(), "failed_unlocks": lost.Load(), "first": fmt.Sprint(first.Load())}})
		}
	}
}
