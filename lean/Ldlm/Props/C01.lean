import Ldlm.Proofs.CoreLock
import Ldlm.Proofs.CoreMain
/-!
C01 — Capacity bound: never more live holds of a lock than its size.

Sequential half (this file, model M2): in every state reachable from start-up by ANY sequence of
connect / disconnect / TryLock / Lock / Unlock / Renew / time advance (lease expiries, wait
time-outs, GC ticks) / GC pass / restart from the state file / admin unlock / cancel, on any lawful
lock-table representation (flat, or sharded with any hash function and any shard count), every lock
holds at most `size` keys — `capacity`; with the default size that is mutual exclusion —
`mutual_exclusion`.  No hypothesis on the history: `run_lockInv` is proved for all operation lists,
restarts included (restore uses `TryLock`, so even a file listing too many holds cannot overfill).

The interleaved half (all schedules of the critical sections of `lock.go` / `manager.go`, any number
of threads) is `Ldlm.Table.capacity` in `Props/C01Table.lean`.
-/
namespace Ldlm.Props.C01
open Ldlm.Core

variable {M : Type} {o : MapOps M} {c : Cfg}

/-- **C01 (sequential histories, unbounded).** -/
theorem capacity (ho : o.Lawful) (ops : List Op) (n : Str) (r : LockRec)
    (hg : o.get (run o c ops).locks n = some r) : (r.keys.length : Int) ≤ r.size :=
  (run_lockInv (c := c) ho ops n r hg).1

/-- with size 1 (the default) at most one key: mutual exclusion -/
theorem mutual_exclusion (ho : o.Lawful) (ops : List Op) (n : Str) (r : LockRec)
    (hg : o.get (run o c ops).locks n = some r) (h1 : r.size = 1) : r.keys.length ≤ 1 := by
  have := capacity ho ops n r hg
  omega

/-- the bound holds for the flat table and for `manager.go`'s sharded table alike -/
theorem capacity_sharded (hash : Str → Nat) (shards : Nat) (ops : List Op) (n : Str) (r : LockRec)
    (hg : (shardedOps hash shards).get (run (shardedOps hash shards) c ops).locks n = some r) :
    (r.keys.length : Int) ≤ r.size :=
  capacity (shardedOps_lawful hash shards) ops n r hg

/-- a queued call implies a full lock (no unit is ever idle while someone waits) -/
theorem waiter_implies_full (ho : o.Lawful) (ops : List Op) (n : Str) (r : LockRec)
    (hg : o.get (run o c ops).locks n = some r) (hq : r.q ≠ []) : (r.keys.length : Int) = r.size :=
  (run_lockInv (c := c) ho ops n r hg).2 hq

/-! non-vacuity: a reachable state with a full size-2 lock, in which a third TryLock is refused -/
def cfg0 : Cfg := { gcInterval := 0, gcMinIdle := 0, dlt := 600 * sec, noClear := false, hasFile := true,
                    genKey := fun n => 75 :: natDigits n }
def s1 : Str := [115, 49]
def hist : List Op := [.connect s1, .tryLock (some s1) [97] (some 2) none, .tryLock (some s1) [97] (some 2) none]

example : ((AMap.get (run flatOps cfg0 hist).locks [97]).map (·.keys.length)) = some 2 := by decide
example : (step flatOps cfg0 (run flatOps cfg0 hist) (.tryLock (some s1) [97] (some 2) none)).2.ok = false := by decide

end Ldlm.Props.C01
