import Ldlm.Model.Edge
import Ldlm.Model.Core
/-!
C14 — Every error condition keeps its specific code end to end.

* `codes_roundtrip` — over the tables REGENERATED from the source on every run (the `switch` of
  `lockErrToProtoBuffErr`, the `switch` of `rpcErrorToError`, the client's exported aliases, the
  proto enum): for each of the six conditions, the Go error value the lock server returns maps to
  the condition's own code (never the `Unknown` default), that code exists in the proto enum (wire
  number, and JSON name on REST), and the Go client maps it back to an exported value that aliases
  the very same server-side error.  The quantifier is the finite list `Cond.all`, shown complete.
* `error_not_true`, `ok_has_no_error` — in M2, for every state and request: a response that carries
  an error never reports locked / unlocked, and a positive response carries no error.
* `nil_is_nil`, `renew_rewrite_pinned` — facts the two above rely on.
Which Go value the server returns for which condition (`Cond.srvErr`) is M2's response enum; it is
tied to the code by the seq and stack streams (classification by `errors.Is` / wire code).
-/
namespace Ldlm.Props.C14
open Ldlm.Edge Ldlm.Core

theorem all_conditions (c : Cond) : c ∈ Cond.all := by cases c <;> decide

/-- **C14, first sentence**, over the regenerated tables -/
theorem codes_roundtrip : ∀ c ∈ Cond.all,
    grpcCode c.srvErr = some c.code ∧ c.code ≠ "Unknown" ∧
    (protoNumber c.code).isSome = true ∧ clientErr c.code = some c.srvErr := by decide

theorem codes_roundtrip' (c : Cond) :
    grpcCode c.srvErr = some c.code ∧ c.code ≠ "Unknown" ∧
    (protoNumber c.code).isSome = true ∧ clientErr c.code = some c.srvErr :=
  codes_roundtrip c (all_conditions c)

/-- distinct conditions keep distinct codes all the way -/
theorem codes_distinct : ∀ c ∈ Cond.all, ∀ d ∈ Cond.all, grpcCode c.srvErr = grpcCode d.srvErr → c = d := by decide

theorem nil_is_nil : Facts.grpcNilIsNil = true := by decide

theorem renew_rewrite_pinned :
    Facts.serverErrRewrites = [("Renew", "timermap.ErrTimerDoesNotExist", "ErrLockDoesNotExistOrInvalidKey")] := by decide

variable {M : Type} (o : MapOps M) (c : Cfg)

theorem srvUnlock_err_ok (s : St M) (n k : Str) :
    (srvUnlock o s n k).2.err ≠ none → (srvUnlock o s n k).2.ok = false := by
  unfold srvUnlock mgrUnlock
  simp only
  split
  · intro _; rfl
  · split
    · intro h; simp at h
    · intro _; rfl

/-- **C14, last sentence**: an error never comes with locked/unlocked = true -/
theorem error_not_true (s : St M) (op : Op) (h : (step o c s op).2.err ≠ none) : (step o c s op).2.ok = false := by
  cases op with
  | tryLock sid n sz lt =>
    simp only [step] at h ⊢
    unfold srvTryLock at h ⊢
    simp only at h ⊢
    repeat' split
    all_goals first | rfl | simp_all
  | lock sid n sz lt wt =>
    simp only [step] at h ⊢
    unfold srvLock at h ⊢
    simp only at h ⊢
    repeat' split
    all_goals first | rfl | simp_all
  | unlock sid n k => exact srvUnlock_err_ok o s n k h
  | renew n k t =>
    simp only [step] at h ⊢
    unfold srvRenew at h ⊢
    repeat' split
    all_goals first | rfl | simp_all
  | ipcUnlock n k ch =>
    simp only [step] at h ⊢
    split
    · rfl
    · rename_i k' hk'
      simp only [hk'] at h
      exact srvUnlock_err_ok o s n k' h
  | connect sid => simp [step] at h
  | disconnect sid => simp [step] at h
  | advance dt => simp [step] at h
  | gc mi => simp [step] at h
  | restart => simp [step] at h
  | cancel req =>
    simp only [step] at h
    split at h <;> simp at h

theorem ok_has_no_error (s : St M) (op : Op) (h : (step o c s op).2.ok = true) : (step o c s op).2.err = none := by
  cases he : (step o c s op).2.err with
  | none => rfl
  | some e =>
    have := error_not_true o c s op (by rw [he]; simp)
    rw [this] at h; cases h

/-! non-vacuity: the D4 shape — before the repair the table lacked the server-side Renew error and
`grpcCode` fell through to the default; with the current table it does not -/
example : grpcCode "server.ErrLockDoesNotExistOrInvalidKey" = some "LockDoesNotExistOrInvalidKey" := by decide
example : grpcCode "some.OtherError" = some "Unknown" := by decide

end Ldlm.Props.C14
