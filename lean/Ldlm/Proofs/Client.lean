import Ldlm.Model.Client
/-! M5: the renew interval rule and the retry rule, for all inputs. -/
namespace Ldlm.Client

/-- the renew interval is below the lock timeout exactly when the timeout exceeds the minimum interval -/
theorem interval_lt (m lt : Int) (hm : 0 < m) (h : m < lt) : interval m lt < lt ∧ m ≤ interval m lt := by
  unfold interval
  split
  · exact ⟨h, Int.le_refl _⟩
  · constructor
    · apply Int.max_lt.mpr; constructor <;> omega
    · exact Int.le_max_right _ _

theorem interval_ge (m lt : Int) : m ≤ interval m lt := by
  unfold interval
  split
  · exact Int.le_refl _
  · exact Int.le_max_right _ _

/-- with a lock timeout at or below the minimum interval the first renew comes too late -/
theorem interval_not_lt (m lt : Int) (h : lt ≤ m) : ¬ interval m lt < lt := by
  have := interval_ge m lt
  omega

/-! ### `rpcWithRetry` -/

theorem retry_attempts_le (m : Nat) : ∀ (outs : List Attempt) (r : Nat), r ≤ m → (retry m r outs).1 ≤ m - r + 1 := by
  intro outs
  induction outs with
  | nil => intro r _; simp [retry]
  | cons a rest ih =>
    intro r hr
    simp only [retry]
    split
    · rename_i h
      have := ih (r + 1) (by omega)
      simp only
      omega
    · simp

/-- every attempt but the last was answered `Unavailable` -/
theorem retry_only_unavailable (m : Nat) : ∀ (outs : List Attempt) (r : Nat) (i : Nat),
    i + 1 < (retry m r outs).1 → outs[i]? = some .unavailable := by
  intro outs
  induction outs with
  | nil => intro r i h; simp [retry] at h
  | cons a rest ih =>
    intro r i h
    simp only [retry] at h
    split at h
    · rename_i hc
      cases i with
      | zero => simp [hc.1]
      | succ j =>
        simp only at h
        have := ih (r + 1) j (by omega)
        simpa using this
    · simp at h

/-- the outcome returned is the outcome of the last attempt made -/
theorem retry_returns_last (m : Nat) : ∀ (outs : List Attempt) (r : Nat) (a : Attempt),
    (retry m r outs).2 = some a → outs[(retry m r outs).1 - 1]? = some a := by
  intro outs
  induction outs with
  | nil => intro r a h; simp [retry] at h
  | cons x rest ih =>
    intro r a h
    simp only [retry] at h ⊢
    split
    · rename_i hc
      simp only [hc, and_self, if_true] at h
      have h' := ih (r + 1) a h
      simp only
      have hpos : 0 < (retry m (r + 1) rest).1 := by
        cases rest with
        | nil => simp [retry] at h
        | cons y ys => simp only [retry]; split <;> simp
      have : (retry m (r + 1) rest).1 + 1 - 1 = ((retry m (r + 1) rest).1 - 1) + 1 := by omega
      rw [this]
      simpa using h'
    · rename_i hc
      simp only [hc, if_false] at h
      simpa using h

/-- an answer other than `Unavailable` is returned at once, whatever the budget -/
theorem retry_other_final (m r : Nat) (a : Attempt) (rest : List Attempt) (h : a ≠ .unavailable) :
    retry m r (a :: rest) = (1, some a) := by
  simp [retry, h]

/-- with the budget used up an `Unavailable` answer is returned -/
theorem retry_budget_spent (m : Nat) (rest : List Attempt) :
    retry m m (.unavailable :: rest) = (1, some .unavailable) := by
  simp [retry]

/-- `n ≤ maxRetries` `Unavailable` answers followed by another answer: n + 1 attempts, that answer -/
theorem retry_within_budget (m : Nat) (a : Attempt) (ha : a ≠ .unavailable) (rest : List Attempt) :
    ∀ (n r : Nat), r + n ≤ m → retry m r (List.replicate n .unavailable ++ a :: rest) = (n + 1, some a) := by
  intro n
  induction n with
  | zero => intro r _; simp [retry, ha]
  | succ k ih =>
    intro r h
    have hr : r < m := by omega
    simp only [List.replicate_succ, List.cons_append, retry, hr, and_self, if_true]
    rw [ih (r + 1) (by omega)]

/-- more `Unavailable` answers than the budget: exactly maxRetries + 1 attempts, `Unavailable` returned -/
theorem retry_over_budget (m : Nat) (rest : List Attempt) :
    ∀ (r : Nat), r ≤ m → retry m r (List.replicate (m - r + 1) .unavailable ++ rest) = (m - r + 1, some .unavailable) := by
  intro r
  induction h : m - r generalizing r with
  | zero =>
    intro hr
    have : r = m := by omega
    subst this
    simp [retry]
  | succ k ih =>
    intro hr
    have hlt : r < m := by omega
    have := ih (r + 1) (by omega) (by omega)
    rw [List.replicate_succ, List.cons_append]
    show (if Attempt.unavailable = Attempt.unavailable ∧ r < m then _ else _) = _
    simp only [hlt, and_self, if_true]
    rw [this]

end Ldlm.Client
