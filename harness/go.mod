module verif/harness

go 1.26

require github.com/imoore76/ldlm v0.0.0

require (
	github.com/deneonet/benc v1.1.8 // indirect
	golang.org/x/exp v0.0.0-20241204233417-43b7b7cde48d // indirect
)

replace github.com/imoore76/ldlm => /repo
