// instr generates the `go test -overlay` build of /repo used by the controlled-concurrency drivers
// (DESIGN §5.2). Nothing under the repo is touched: instrumented copies go to -out together with
// overlay.json. The working tree is re-read on every invocation, so mutated trees are picked up.
//
//	instr -repo /repo -out <dir> [-yields filtered|all]
//
// Per non-test file of the packages below:
//
//	(a) verifrt.Yield("<relpath>:<line>") before every statement selected by interesting() (all
//	    statements with -yields all) in function bodies, nested blocks and case/comm clauses, never
//	    directly in the body block of a switch/select. Files are parsed WITHOUT comments (go/printer
//	    misplaces position-less nodes next to comments).
//	(b) sync.Mutex / sync.RWMutex -> verifrt.Mutex / verifrt.RWMutex; sync.Mutex in the packages
//	    listed in -open -> verifrt.OpenMutex (held across calls into other packages: must not
//	    suppress yields). The sync import goes when unused; the verifrt import is added only to
//	    files that got a yield, a swap or a Recover.
//	(e) `defer verifrt.Recover()` first in every function literal that is the operand of a go
//	    statement or the callback of time.AfterFunc / context.AfterFunc (only those).
//
// The accessor files of -exports are merged into the overlay; they get (b) only.
package main

import (
	"bytes"
	"encoding/json"
	"flag"
	"fmt"
	"go/ast"
	"go/format"
	"go/parser"
	"go/printer"
	"go/token"
	"os"
	"path/filepath"
	"strconv"
	"strings"
)

const rtImport = "github.com/imoore76/ldlm/verifrt"

var pkgs = []string{"lock", "timermap", "server", "server/session", "server/session/store", "net/rest", "client"}

var (
	repo     = flag.String("repo", "/repo", "working tree to instrument")
	out      = flag.String("out", "", "output directory (generated *.go and overlay.json in it are replaced)")
	yields   = flag.String("yields", "filtered", "filtered | all")
	rtSrc    = flag.String("rt", "/verif/harness/verifrt_src/rt.go", "runtime source, mapped to <repo>/verifrt/rt.go")
	exports  = flag.String("exports", "/verif/harness/overlay/exports.json", "overlay of accessor files to merge (keys relative to /repo)")
	openPkgs = flag.String("open", "net/rest", "comma-separated packages whose sync.Mutex becomes verifrt.OpenMutex")
)

func die(format string, a ...any) {
	fmt.Fprintf(os.Stderr, "instr: "+format+"\n", a...)
	os.Exit(1)
}

func sel(pkg, name string) *ast.SelectorExpr {
	return &ast.SelectorExpr{X: ast.NewIdent(pkg), Sel: ast.NewIdent(name)}
}

func yieldStmt(label string) ast.Stmt {
	return &ast.ExprStmt{X: &ast.CallExpr{Fun: sel("verifrt", "Yield"),
		Args: []ast.Expr{&ast.BasicLit{Kind: token.STRING, Value: strconv.Quote(label)}}}}
}

// interesting: does the statement itself (not its nested blocks / literals, which get their own
// yields) contain a call or channel operation that can touch shared state? Cheap syntactic filter;
// drops pure logging, formatting and builtins.
func interesting(s ast.Stmt) bool {
	if *yields == "all" {
		return true
	}
	hit := false
	// a switch's case expressions live inside its body block, which the walk below does not enter
	// (nested blocks get their own yields): look at them here, so that `switch { case ctx.Err() != nil:`
	// right after a blocking call is a preemption point like `if ctx.Err() != nil` is
	if sw, ok := s.(*ast.SwitchStmt); ok && sw.Body != nil {
		for _, c := range sw.Body.List {
			if cc, ok := c.(*ast.CaseClause); ok {
				for _, e := range cc.List {
					if interesting(&ast.ExprStmt{X: e}) {
						return true
					}
				}
			}
		}
	}
	ast.Inspect(s, func(n ast.Node) bool {
		switch x := n.(type) {
		case *ast.FuncLit:
			return false
		case *ast.BlockStmt:
			return false
		case *ast.CallExpr:
			if se, ok := x.Fun.(*ast.SelectorExpr); ok {
				if id, ok := se.X.(*ast.Ident); ok {
					switch id.Name {
					case "ctxLog", "slog", "log", "fmt", "strings", "slices", "errors", "uuid", "cxLogger", "maps", "strconv":
						return true
					}
				}
				hit = true
			} else if id, ok := x.Fun.(*ast.Ident); ok {
				switch id.Name {
				case "close":
					hit = true
				case "len", "append", "make", "new", "cap", "panic", "string", "int", "int64", "recover", "delete", "uint32", "min", "max":
				default:
					hit = true
				}
			}
		case *ast.SendStmt, *ast.SelectStmt, *ast.GoStmt:
			hit = true
		case *ast.UnaryExpr:
			if x.Op == token.ARROW {
				hit = true
			}
		}
		return true
	})
	return hit
}

type file struct {
	fset    *token.FileSet
	af      *ast.File
	rel     string
	imports map[string]string // local name -> import path
	open    bool              // sync.Mutex -> OpenMutex in this file
	used    bool              // something refers to verifrt now
	syncUse bool              // sync is still referred to
}

func (f *file) instrList(list []ast.Stmt) []ast.Stmt {
	res := make([]ast.Stmt, 0, 2*len(list))
	for _, s := range list {
		if interesting(s) {
			f.used = true
			res = append(res, yieldStmt(fmt.Sprintf("%s:%d", f.rel, f.fset.Position(s.Pos()).Line)))
		}
		res = append(res, s)
	}
	return res
}

// isPkgSel: is e the selector <local name of import path>.<name>?
func (f *file) isPkgSel(e ast.Expr, path, name string) bool {
	se, ok := e.(*ast.SelectorExpr)
	if !ok || se.Sel.Name != name {
		return false
	}
	id, ok := se.X.(*ast.Ident)
	return ok && f.imports[id.Name] == path
}

func (f *file) rewrite(withYields bool) {
	skip := map[*ast.BlockStmt]bool{}
	var lits []*ast.FuncLit // get `defer verifrt.Recover()` once the yields are in
	ast.Inspect(f.af, func(n ast.Node) bool {
		switch x := n.(type) {
		case *ast.SwitchStmt:
			skip[x.Body] = true
		case *ast.TypeSwitchStmt:
			skip[x.Body] = true
		case *ast.SelectStmt:
			skip[x.Body] = true
		case *ast.BlockStmt:
			if withYields && !skip[x] {
				x.List = f.instrList(x.List)
			}
		case *ast.CaseClause:
			if withYields {
				x.Body = f.instrList(x.Body)
			}
		case *ast.CommClause:
			if withYields {
				x.Body = f.instrList(x.Body)
			}
		case *ast.GoStmt:
			if fl, ok := x.Call.Fun.(*ast.FuncLit); ok && withYields {
				lits = append(lits, fl)
			}
		case *ast.CallExpr:
			if withYields && len(x.Args) == 2 && (f.isPkgSel(x.Fun, "time", "AfterFunc") || f.isPkgSel(x.Fun, "context", "AfterFunc")) {
				if fl, ok := x.Args[1].(*ast.FuncLit); ok {
					lits = append(lits, fl)
				}
			}
		case *ast.SelectorExpr:
			if id, ok := x.X.(*ast.Ident); ok && f.imports[id.Name] == "sync" {
				switch {
				case x.Sel.Name == "Mutex" && f.open:
					id.Name, x.Sel.Name, f.used = "verifrt", "OpenMutex", true
				case x.Sel.Name == "Mutex" || x.Sel.Name == "RWMutex":
					id.Name, f.used = "verifrt", true
				default:
					f.syncUse = true
				}
			}
		}
		return true
	})
	for _, fl := range lits {
		f.used = true
		fl.Body.List = append([]ast.Stmt{&ast.DeferStmt{Call: &ast.CallExpr{Fun: sel("verifrt", "Recover")}}}, fl.Body.List...)
	}
}

// fixImports drops "sync" when unused and adds the verifrt import.
func (f *file) fixImports() {
	spec := &ast.ImportSpec{Path: &ast.BasicLit{Kind: token.STRING, Value: strconv.Quote(rtImport)}}
	for _, d := range f.af.Decls {
		gd, ok := d.(*ast.GenDecl)
		if !ok || gd.Tok != token.IMPORT {
			continue
		}
		specs := gd.Specs[:0]
		for _, s := range gd.Specs {
			if s.(*ast.ImportSpec).Path.Value == `"sync"` && !f.syncUse {
				continue
			}
			specs = append(specs, s)
		}
		gd.Specs = specs
		if spec != nil {
			gd.Specs = append(gd.Specs, spec) // go/printer parenthesises any decl with > 1 spec
			spec = nil
		}
	}
	if spec != nil { // file without imports
		f.af.Decls = append([]ast.Decl{&ast.GenDecl{Tok: token.IMPORT, Specs: []ast.Spec{spec}}}, f.af.Decls...)
	}
}

// process returns the instrumented source of path, or nil if nothing changed.
func process(path, rel string, withYields, open bool) []byte {
	raw, err := os.ReadFile(path)
	if err != nil {
		die("%v", err)
	}
	// Comments are dropped, so compiler directives would silently vanish: keep build constraints,
	// refuse the rest.
	header := ""
	for _, ln := range strings.Split(string(raw), "\n") {
		switch t := strings.TrimSpace(ln); {
		case strings.HasPrefix(t, "//go:build "), strings.HasPrefix(t, "// +build "):
			header += t + "\n"
		case strings.HasPrefix(t, "//go:") || t == `import "C"`:
			die("%s: directive %q would be lost by comment-free instrumentation", path, t)
		}
	}
	f := &file{fset: token.NewFileSet(), rel: rel, imports: map[string]string{}, open: open}
	if f.af, err = parser.ParseFile(f.fset, path, raw, parser.SkipObjectResolution); err != nil {
		die("parse: %v", err)
	}
	for _, is := range f.af.Imports {
		p, _ := strconv.Unquote(is.Path.Value)
		name := p[strings.LastIndex(p, "/")+1:]
		if is.Name != nil {
			name = is.Name.Name
		}
		f.imports[name] = p
	}
	if _, clash := f.imports["verifrt"]; clash {
		die("%s: already has an import named verifrt", path)
	}
	f.rewrite(withYields)
	if !f.used {
		return nil
	}
	f.fixImports()
	var buf bytes.Buffer
	if header != "" {
		buf.WriteString(header + "\n")
	}
	if err := printer.Fprint(&buf, f.fset, f.af); err != nil {
		die("print %s: %v", path, err)
	}
	src, err := format.Source(buf.Bytes())
	if err != nil {
		bad := filepath.Join(os.TempDir(), "instr-bad.go")
		os.WriteFile(bad, buf.Bytes(), 0o644)
		die("format %s: %v (unformatted output kept in %s)", path, err, bad)
	}
	return src
}

func write(path string, b []byte) {
	if err := os.WriteFile(path, b, 0o644); err != nil {
		die("%v", err)
	}
}

func main() {
	flag.Parse()
	if *out == "" || flag.NArg() != 0 || (*yields != "filtered" && *yields != "all") {
		die("usage: instr -repo /repo -out <dir> [-yields filtered|all]")
	}
	root, err := filepath.Abs(*repo)
	if err != nil {
		die("%v", err)
	}
	dir, err := filepath.Abs(*out)
	if err != nil {
		die("%v", err)
	}
	if err := os.MkdirAll(dir, 0o755); err != nil {
		die("%v", err)
	}
	old, _ := filepath.Glob(filepath.Join(dir, "*.go"))
	for _, o := range append(old, filepath.Join(dir, "overlay.json")) {
		os.Remove(o)
	}
	open := map[string]bool{}
	for _, p := range strings.Split(*openPkgs, ",") {
		open[strings.TrimSpace(p)] = true
	}
	overlay := map[string]string{}
	nfiles := 0
	for _, pkg := range pkgs {
		files, _ := filepath.Glob(filepath.Join(root, pkg, "*.go"))
		if len(files) == 0 {
			die("package %s: no .go files under %s", pkg, root)
		}
		for _, path := range files {
			if strings.HasSuffix(path, "_test.go") {
				continue
			}
			rel, _ := filepath.Rel(root, path)
			rel = filepath.ToSlash(rel)
			if src := process(path, rel, true, open[pkg]); src != nil {
				dst := filepath.Join(dir, strings.ReplaceAll(rel, "/", "__"))
				write(dst, src)
				overlay[path] = dst
				nfiles++
			}
		}
	}
	// the runtime: package <module>/verifrt exists only through the overlay
	rt, err := os.ReadFile(*rtSrc)
	if err != nil {
		die("%v", err)
	}
	write(filepath.Join(dir, "verifrt__rt.go"), rt)
	overlay[filepath.Join(root, "verifrt", "rt.go")] = filepath.Join(dir, "verifrt__rt.go")
	// accessor files: merged; mutex types swapped if they mention any
	if *exports != "" {
		b, err := os.ReadFile(*exports)
		if err != nil {
			die("%v", err)
		}
		var ex struct{ Replace map[string]string }
		if err := json.Unmarshal(b, &ex); err != nil {
			die("%s: %v", *exports, err)
		}
		for k, v := range ex.Replace {
			rel := strings.TrimPrefix(k, "/repo/")
			target := filepath.Join(root, rel)
			if _, dup := overlay[target]; dup {
				die("%s: %s is already an instrumented file", *exports, target)
			}
			overlay[target] = v
			if src := process(v, rel, false, open[filepath.ToSlash(filepath.Dir(rel))]); src != nil {
				dst := filepath.Join(dir, strings.ReplaceAll(rel, "/", "__"))
				write(dst, src)
				overlay[target] = dst
			}
		}
	}
	b, _ := json.MarshalIndent(map[string]any{"Replace": overlay}, "", " ")
	write(filepath.Join(dir, "overlay.json"), append(b, '\n'))
	fmt.Fprintf(os.Stderr, "instr: %d files instrumented (yields=%s), overlay %s\n", nfiles, *yields, filepath.Join(dir, "overlay.json"))
}
