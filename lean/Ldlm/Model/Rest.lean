import Ldlm.Model.Core
import Ldlm.Model.Edge
/-!
M4 — the REST gateway (`net/rest/rest.go`) in front of the lock server M2, sequential semantics.

A REST session is a table entry cookie ↦ (lock-server session, idle deadline).  `POST /session`
tags a new connection (`TagConn` → `CreateSession`) and arms the idle timer; every request carrying a
valid cookie first resets the idle timer (`ValidateSession`) and then calls the SAME service object a
gRPC connection calls, under the session's context; `DELETE /session` and the idle timer remove the
table entry and deliver connection-end (`HandleConn(ConnEnd)` → `DestroySession`).  gRPC connections
on the same server are `gconnect / greq / gend`.  Only TryLock, Unlock and Renew are routed by the
gateway (`protos/ldlm.pb.gw.go`), so no request blocks.

HTTP statuses as written by `rest.go`: 201 create, 200 served (errors of the lock server travel in
the response body), 401 missing / unknown / expired cookie, 400 a body the gateway cannot decode,
500 DELETE without cookie, 409 DELETE with an unknown cookie.  Core Lean only.
-/
namespace Ldlm.Rest
open Ldlm Ldlm.Core Ldlm.AMap

structure RCfg where
  timeout   : Nat            -- RestSessionTimeout (ns)
  genCookie : Nat → Str      -- fresh REST session ids (uuid without dashes in the code)
  genConn   : Nat → Sid      -- fresh lock-server session ids (`TagConn`: uuid)

structure RSt (M : Type) where
  core  : St M
  rs    : List (Str × (Sid × Nat))   -- cookie ↦ (lock-server session, idle deadline)
  nrest : Nat                        -- REST sessions created so far
  nconn : Nat                        -- connections tagged so far (REST sessions and gRPC connections)
  ends  : List (Str × Nat)           -- ghost: connection-end deliveries per REST session

inductive Req
  | tryLock (name : Str) (size lt : Option Int)
  | unlock (name key : Str)
  | renew (name key : Str) (lt : Int)
deriving Repr

/-- the call on the service object, under the connection / REST-session context `sid` -/
def Req.op (sid : Sid) : Req → Op
  | .tryLock n sz lt => .tryLock (some sid) n sz lt
  | .unlock n k => .unlock (some sid) n k
  | .renew n k t => .renew n k t

inductive ROp
  | create
  | delete (cookie : Option Str)
  | req (cookie : Option Str) (r : Option Req)   -- `none`: a body the gateway cannot decode into the RPC's message
  | gconnect
  | greq (sid : Sid) (r : Req)
  | gend (sid : Sid)
  | adv (dt : Nat)
deriving Repr

structure RResp where
  http   : Nat := 0                  -- 0: a gRPC call
  resp   : Option Resp := none       -- the service's answer when the request reached it
  cookie : Option Str := none        -- cookie / connection id handed out
  ended  : List Str := []            -- REST sessions ended by their idle timer during this step
  tie    : Bool := false

/-- the Go error value behind each of M2's errors (as `Edge.Cond.srvErr`) -/
def goErr : Err → String
  | .session => "server.ErrSessionDoesNotExist" | .emptyName => "server.ErrEmptyName"
  | .badLockTimeout => "server.ErrInvalidLockTimeout" | .badWaitTimeout => "server.ErrInvalidWaitTimeout"
  | .badSize => "lock.ErrInvalidLockSize" | .sizeMismatch => "lock.ErrLockSizeMismatch"
  | .noLock => "lock.ErrLockDoesNotExist" | .badKey => "lock.ErrInvalidLockKey"
  | .waitTimeout => "server.ErrLockWaitTimeout" | .noLockOrKey => "server.ErrLockDoesNotExistOrInvalidKey"
  | .canceled => "context.Canceled"

/-- the error code in the response message, on either transport: `lockErrToProtoBuffErr` (table
regenerated from the source on every run) -/
def wireCode (e : Option Err) : Option String := e.bind (fun e => Edge.grpcCode (goErr e))

section
variable {M : Type} (o : MapOps M) (c : Cfg) (rc : RCfg)

def init : RSt M := { core := Core.init o c, rs := [], nrest := 0, nconn := 0, ends := [] }

def bump (m : List (Str × Nat)) (k : Str) : List (Str × Nat) := set m k ((get m k).getD 0 + 1)

/-- deliver connection-end for REST session `ck` bound to lock-server session `sid` -/
def endSession (s : RSt M) (ck : Str) (sid : Sid) : RSt M :=
  { s with core := (Core.step o c s.core (.disconnect sid)).1, rs := del s.rs ck, ends := bump s.ends ck }

/-- the REST session whose idle timer fires first -/
def earliest : List (Str × (Sid × Nat)) → Option (Str × (Sid × Nat))
  | [] => none
  | e :: rest => match earliest rest with
    | none => some e
    | some a => if a.2.2 < e.2.2 then some a else some e

/-- advance the clock to `target`: lock-server events and idle timers in deadline order; an idle
timer and a lock-server event (or two idle timers) on the same instant are reported as a tie -/
def radv (target : Nat) : Nat → RSt M → RSt M × List Str × Bool
  | 0, s => (s, [], true)
  | fuel+1, s =>
    match earliest s.rs with
    | none =>
      let r := Core.step o c s.core (.advance (target - s.core.now))
      ({ s with core := r.1 }, [], r.2.tie)
    | some (ck, sid, d) =>
      if d > target then
        let r := Core.step o c s.core (.advance (target - s.core.now))
        ({ s with core := r.1 }, [], r.2.tie)
      else
        let r := Core.step o c s.core (.advance (d - s.core.now))
        let tie := r.2.tie || s.core.timers.any (fun e => e.2.deadline = d)
                   || (s.rs.filter (fun e => e.2.2 = d)).length > 1
                   || (c.gcInterval ≠ 0 && s.core.gcNext = d)
        let s1 := endSession o c { s with core := r.1 } ck sid
        let (s2, ended, tie2) := radv target fuel s1
        (s2, ck :: ended, tie || tie2)

def rstep (s : RSt M) : ROp → RSt M × RResp
  | .create =>
    let sid := rc.genConn s.nconn
    let ck := rc.genCookie s.nrest
    ({ s with core := (Core.step o c s.core (.connect sid)).1,
              rs := set s.rs ck (sid, s.core.now + rc.timeout),
              nrest := s.nrest + 1, nconn := s.nconn + 1 },
     { http := 201, cookie := some ck })
  | .delete none => (s, { http := 500 })
  | .delete (some ck) =>
    match get s.rs ck with
    | none => (s, { http := 409 })
    | some (sid, _) => (endSession o c s ck sid, { http := 200 })
  | .req none _ => (s, { http := 401 })
  | .req (some ck) r =>
    match get s.rs ck with
    | none => (s, { http := 401 })
    | some (sid, _) =>
      let s1 := { s with rs := set s.rs ck (sid, s.core.now + rc.timeout) }    -- `ValidateSession`: idle timer reset
      match r with
      | none => (s1, { http := 400 })
      | some q =>
        let r := Core.step o c s1.core (q.op sid)
        ({ s1 with core := r.1 }, { http := 200, resp := some r.2 })
  | .gconnect =>
    let sid := rc.genConn s.nconn
    ({ s with core := (Core.step o c s.core (.connect sid)).1, nconn := s.nconn + 1 }, { cookie := some sid })
  | .greq sid q =>
    let r := Core.step o c s.core (q.op sid)
    ({ s with core := r.1 }, { resp := some r.2 })
  | .gend sid => ({ s with core := (Core.step o c s.core (.disconnect sid)).1 }, {})
  | .adv dt =>
    let (s', ended, tie) := radv o c (s.core.now + dt) (s.rs.length + 1) s
    (s', { ended := ended, tie := tie })

def rrun (s : RSt M) (ops : List ROp) : RSt M := ops.foldl (fun s op => (rstep o c rc s op).1) s

/-- the responses of a run, in order -/
def routs : RSt M → List ROp → List RResp
  | _, [] => []
  | s, op :: ops => (rstep o c rc s op).2 :: routs (rstep o c rc s op).1 ops

end
end Ldlm.Rest
