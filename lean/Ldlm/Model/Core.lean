import Ldlm.Model.AMap
import Ldlm.Model.Codec
/-!
M2 — the sequential, timed lock server: `server/server.go` composed with `lock/manager.go`,
`lock/lock.go`, `timermap/timermap.go` and `server/session/session.go`, one API call at a time, every
call run to quiescence (goroutines it wakes — a granted waiter, a lease callback — finish before the
next call).  Time is virtual (`Nat` nanoseconds).

The lock table is accessed only through `MapOps` (get / set / filter / empty), so the same `step`
runs on a flat association list and on the sharded table of `manager.go` for any hash function and
shard count.  Sessions, lease timers and the state file are association lists.

What one model step stands for in the code is documented per function.  Where the code has a
recorded defect that stays (K1: no-clear-on-disconnect) the model has it too.
-/
namespace Ldlm.Core
open Ldlm.AMap

abbrev Str := List Nat
abbrev Hold := Ldlm.Codec.Hold
abbrev Sid := Str

def sec : Nat := 1000000000

inductive Err
  | session | emptyName | badLockTimeout | badWaitTimeout | badSize | sizeMismatch
  | noLock | badKey | waitTimeout | noLockOrKey | canceled
deriving DecidableEq, Repr

/-- a blocked `LockServer.Lock` call -/
structure Pending where
  req  : Nat
  sid  : Sid
  name : Str
  key  : Str
  size : Int
  lt   : Option Int
  deadline : Option Nat
deriving DecidableEq, Repr

/-- a `ManagedLock`: size, key list, FIFO of blocked calls (the semaphore's waiter list), idle clock -/
structure LockRec where
  size : Int
  keys : List Str
  q    : List Pending
  lastAccessed : Nat
deriving DecidableEq, Repr

/-- a lease timer: what the `onTimeoutFunc` closure captured, and when it fires -/
structure Timer where
  deadline : Nat
  name : Str
  key  : Str
  sid  : Sid
deriving DecidableEq, Repr

structure Cfg where
  gcInterval : Nat
  gcMinIdle  : Nat
  dlt        : Nat          -- DefaultLockTimeout (ns)
  noClear    : Bool
  hasFile    : Bool
  genKey     : Nat → Str    -- the key generated for the n-th Lock/TryLock request (uuid freshness: injective)

/-- the operations the code performs on the lock table -/
structure MapOps (M : Type) where
  empty  : M
  get    : M → Str → Option LockRec
  set    : M → Str → LockRec → M
  filter : (Str → LockRec → Bool) → M → M
  toList : M → List (Str × LockRec)      -- only for printing (driver); no law, no proof depends on it

structure MapOps.Lawful {M} (o : MapOps M) : Prop where
  get_empty  : ∀ n, o.get o.empty n = none
  get_set    : ∀ m n r n', o.get (o.set m n r) n' = if n = n' then some r else o.get m n'
  get_filter : ∀ p m n, o.get (o.filter p m) n = (o.get m n).filter (p n)

structure St (M : Type) where
  now      : Nat
  locks    : M
  timers   : List (Str × Timer)
  sessions : List (Sid × List Hold)
  file     : List (Sid × List Hold)
  pending  : List Pending
  gcNext   : Nat
  nreq     : Nat

inductive Event
  | done (req : Nat) (locked : Bool) (key : Str) (err : Option Err)
deriving DecidableEq, Repr

structure Resp where
  ok      : Bool := false          -- locked / unlocked
  key     : Str := []
  err     : Option Err := none
  pending : Bool := false
  events  : List Event := []
  tie     : Bool := false          -- `advance` met two order-sensitive events on one instant
deriving Repr

inductive Op
  | connect (sid : Sid)
  | disconnect (sid : Sid)
  | tryLock (sid : Option Sid) (name : Str) (size : Option Int) (lt : Option Int)
  | lock (sid : Option Sid) (name : Str) (size : Option Int) (lt : Option Int) (wt : Option Int)
  | unlock (sid : Option Sid) (name : Str) (key : Str)
  | renew (name : Str) (key : Str) (t : Int)
  | advance (dt : Nat)
  | gc (minIdle : Nat)
  | restart
  | ipcUnlock (name : Str) (key : Str) (chosen : Str)
  | cancel (req : Nat)
deriving Repr

/-! ### timer key (after F3): decimal byte length of the name, ':', name, key -/

def natDigits (n : Nat) : Str := (Nat.toDigits 10 n).map Char.toNat

def tkey (name key : Str) : Str := natDigits name.length ++ [58] ++ name ++ key

def negOpt : Option Int → Bool
  | some t => decide (t < 0)
  | none => false

/-! ### building blocks -/

section
variable {M : Type} (o : MapOps M) (c : Cfg)

def init : St M :=
  { now := 0, locks := o.empty, timers := [], sessions := [], file := [], pending := [],
    gcNext := c.gcInterval, nreq := 0 }

/-- `sessionManager.Save` -/
def save (s : St M) : St M := { s with file := s.sessions }

/-- `sessionManager.AddLock` (+ Save) -/
def addBook (s : St M) (sid : Sid) (h : Hold) : St M :=
  save { s with sessions := set s.sessions sid (((get s.sessions sid).getD []) ++ [h]) }

def sameHold (name key : Str) (h : Hold) : Bool := h.name = name ∧ h.key = key

/-- `sessionManager.RemoveLock` after F6: from whichever session entry lists it (+ Save) -/
def removeBook (s : St M) (name key : Str) : St M :=
  save { s with sessions := mapv (fun _ hs => hs.filter (fun h => !sameHold name key h)) s.sessions }

/-- arm a lease timer iff a positive lock timeout was requested (`timermap.Add`) -/
def arm (s : St M) (name key : Str) (sid : Sid) : Option Int → St M
  | some t => if t > 0 then
      { s with timers := set s.timers (tkey name key) ⟨s.now + t.toNat * sec, name, key, sid⟩ }
    else s
  | none => s

/-- the tail of a successful `LockServer.Lock/TryLock`: `AddLock`, then the lease timer -/
def book (s : St M) (sid : Sid) (name key : Str) (size : Int) (lt : Option Int) : St M :=
  arm (addBook s sid ⟨name, key, size⟩) name key sid lt

/-- `semaphore.Release(1)` + `notifyWaiters` on lock `name` whose record (key already removed) is `r`:
the unit goes to the head waiter, whose blocked `LockServer.Lock` call then completes. -/
def handOver (s : St M) (name : Str) (r : LockRec) : St M × List Event :=
  match r.q with
  | [] => ({ s with locks := o.set s.locks name r }, [])
  | p :: q' =>
    let s1 := { s with locks := o.set s.locks name { r with q := q', keys := r.keys ++ [p.key] },
                       pending := s.pending.filter (fun p' => p'.req ≠ p.req) }
    (book s1 p.sid name p.key p.size p.lt, [.done p.req true p.key none])

/-- `lock.Manager.Unlock` (getLock without create, deleted check, removeKey, Release) -/
def mgrUnlock (s : St M) (name key : Str) : St M × Bool × Option Err × List Event :=
  match o.get s.locks name with
  | none => (s, false, some .noLock, [])
  | some r =>
    let r := { r with lastAccessed := s.now }
    if key ∈ r.keys then
      let (s', ev) := handOver o s name { r with keys := r.keys.erase key }
      (s', true, none, ev)
    else ({ s with locks := o.set s.locks name r }, false, some .badKey, [])

/-- `LockServer.Unlock` after F7 (no session needed): timer `Remove`, manager `Unlock`, `RemoveLock` -/
def srvUnlock (s : St M) (name key : Str) : St M × Resp :=
  let s := { s with timers := del s.timers (tkey name key) }
  let (s, ok, err, ev) := mgrUnlock o s name key
  let s := if ok then removeBook s name key else s
  (s, { ok := ok, err := err, events := ev })

/-- `Manager.getLock(name, create = true, size)`: `none` = error, else the (possibly new) record -/
def getLockCreate (s : St M) (name : Str) (size : Int) : Except Err LockRec :=
  if size ≤ 0 then .error .badSize else
  match o.get s.locks name with
  | some r => if size ≠ r.size then .error .sizeMismatch else .ok { r with lastAccessed := s.now }
  | none => .ok { size := size, keys := [], q := [], lastAccessed := s.now }

/-- `LockServer.TryLock`.  Every Lock/TryLock request consumes one request number (the harness
numbers requests the same way); its key is `genKey` of that number. -/
def srvTryLock (s : St M) (sid : Option Sid) (name : Str) (size lt : Option Int) : St M × Resp :=
  let key := c.genKey s.nreq
  let s := { s with nreq := s.nreq + 1 }
  match sid with
  | none => (s, { err := some .session })
  | some sid =>
    if negOpt lt then (s, { err := some .badLockTimeout }) else
    let size := size.getD 1
    if name = [] then (s, { err := some .emptyName }) else
    match getLockCreate o s name size with
    | .error e => (s, { err := some e })
    | .ok r =>
      if (r.keys.length : Int) < r.size ∧ r.q = [] then
        let s := { s with locks := o.set s.locks name { r with keys := r.keys ++ [key] } }
        (book s sid name key size lt, { ok := true, key := key })
      else ({ s with locks := o.set s.locks name r }, {})

/-- `LockServer.Lock`: as `TryLock`, but a refused acquisition enqueues the call -/
def srvLock (s : St M) (sid : Option Sid) (name : Str) (size lt wt : Option Int) : St M × Resp :=
  let key := c.genKey s.nreq
  let req := s.nreq
  let s := { s with nreq := s.nreq + 1 }
  match sid with
  | none => (s, { err := some .session })
  | some sid =>
    if negOpt lt then (s, { err := some .badLockTimeout }) else
    if negOpt wt then (s, { err := some .badWaitTimeout }) else
    let size := size.getD 1
    if name = [] then (s, { err := some .emptyName }) else
    match getLockCreate o s name size with
    | .error e => (s, { err := some e })
    | .ok r =>
      if (r.keys.length : Int) < r.size ∧ r.q = [] then
        let s := { s with locks := o.set s.locks name { r with keys := r.keys ++ [key] } }
        (book s sid name key size lt, { ok := true, key := key })
      else
        let dl := match wt with
          | some t => if t > 0 then some (s.now + t.toNat * sec) else none
          | none => none
        let p : Pending := ⟨req, sid, name, key, size, lt, dl⟩
        ({ s with locks := o.set s.locks name { r with q := r.q ++ [p] }, pending := s.pending ++ [p] },
         { pending := true })

/-- `LockServer.Renew` (no session check in the code): `timermap.Reset` -/
def srvRenew (s : St M) (name key : Str) (t : Int) : St M × Resp :=
  if t ≤ 0 then (s, { err := some .badLockTimeout }) else
  match get s.timers (tkey name key) with
  | none => (s, { key := key, err := some .noLockOrKey })
  | some tm =>
    ({ s with timers := set s.timers (tkey name key) { tm with deadline := s.now + t.toNat * sec } },
     { ok := true, key := key })

/-- a blocked `Lock` call gives up (wait timeout / caller's context cancelled): leaves the FIFO -/
def abandon (s : St M) (p : Pending) (e : Err) : St M × List Event :=
  let locks := match o.get s.locks p.name with
    | some r => o.set s.locks p.name { r with q := r.q.filter (fun p' => p'.req ≠ p.req) }
    | none => s.locks
  ({ s with locks := locks, pending := s.pending.filter (fun p' => p'.req ≠ p.req) },
   [.done p.req false p.key (some e)])

def abandonAll (s : St M) (ps : List Pending) (e : Err) : St M × List Event :=
  ps.foldl (fun (acc : St M × List Event) p =>
    let (s', ev) := abandon o acc.1 p e
    (s', acc.2 ++ ev)) (s, [])

/-- the lease callback (`onTimeoutFunc` + the `Remove` in `timermap.Add`'s wrapper) -/
def fireLease (s : St M) (tk : Str) (tm : Timer) : St M × List Event :=
  let (s, _, _, ev) := mgrUnlock o s tm.name tm.key
  let s := removeBook s tm.name tm.key
  ({ s with timers := del s.timers tk }, ev)

/-- the loop of `LockServer.DestroySession` over the destroyed session's holds -/
def clearHolds (s : St M) (hs : List Hold) : St M × List Event :=
  hs.foldl (fun (acc : St M × List Event) h =>
    let (s', ok, _, ev) := mgrUnlock o acc.1 h.name h.key
    let s' := if ok then { s' with timers := del s'.timers (tkey h.name h.key) } else s'
    (s', acc.2 ++ ev)) (s, [])

/-- `LockServer.DestroySession` -/
def destroy (s : St M) (sid : Sid) : St M × List Event :=
  match get s.sessions sid with
  | none => (s, [])
  | some hs =>
    let s := save { s with sessions := del s.sessions sid }
    if c.noClear ∨ hs = [] then (s, []) else clearHolds o s hs

/-- `Manager.lockGc(minIdle)` -/
def gcPass (s : St M) (minIdle : Nat) : St M :=
  { s with locks := o.filter (fun _ r => !(r.keys = [] ∧ s.now - r.lastAccessed > minIdle)) s.locks }

/-! ### time -/

def minOpt : Option Nat → Option Nat → Option Nat
  | none, b => b
  | a, none => a
  | some a, some b => some (min a b)

def earliestLease (s : St M) : Option (Str × Timer) :=
  s.timers.foldl (fun acc e => match acc with
    | none => some e
    | some a => if e.2.deadline < a.2.deadline then some e else some a) none

def earliestWait (s : St M) : Option (Pending × Nat) :=
  s.pending.foldl (fun acc p => match p.deadline, acc with
    | none, _ => acc
    | some d, none => some (p, d)
    | some d, some a => if d < a.2 then some (p, d) else some a) none

/-- process events in deadline order until `target` (result: state, events, tie flag, out-of-fuel flag); on a tie: lease expiry, then wait time-out, then
GC tick, and the tie is reported (the harness never compares past a reported tie) -/
def advanceTo (target : Nat) : (fuel : Nat) → St M → St M × List Event × Bool × Bool
  | 0, s => ({ s with now := max s.now target }, [], false, true)     -- out of fuel: reported, never silently
  | fuel+1, s =>
    let tl := (earliestLease s).map (·.2.deadline)
    let tw := (earliestWait s).map (·.2)
    let tg := if c.gcInterval = 0 then none else some s.gcNext
    match minOpt (minOpt tl tw) tg with
    | none => ({ s with now := max s.now target }, [], false, false)
    | some t =>
      if t > target then ({ s with now := max s.now target }, [], false, false) else
      let s := { s with now := max s.now t }
      let tie := ((tl == some t) && (tw == some t)) || ((tg == some t) && ((tl == some t) || (tw == some t)))
      let (s, ev) :=
        if tl == some t then
          match earliestLease s with
          | some (tk, tm) => fireLease o s tk tm
          | none => (s, [])
        else if tw == some t then
          match earliestWait s with
          | some (p, _) => abandon o s p .waitTimeout
          | none => (s, [])
        else ({ gcPass o s c.gcMinIdle with gcNext := t + c.gcInterval }, [])
      let (s', ev', tie', out) := advanceTo target fuel s
      (s', ev ++ ev', tie || tie', out)

/-! ### restart: `server.New` on the state file left behind -/

/-- one persisted hold: `TryLock`, then either drop it from the bookkeeping or arm the default lease -/
def restoreOne (s : St M) (sid : Sid) (h : Hold) : St M :=
  let fail := removeBook s h.name h.key
  match getLockCreate o s h.name h.size with
  | .error _ => fail
  | .ok r =>
    if (r.keys.length : Int) < r.size ∧ r.q = [] then
      { s with locks := o.set s.locks h.name { r with keys := r.keys ++ [h.key] },
               timers := set s.timers (tkey h.name h.key) ⟨s.now + c.dlt, h.name, h.key, sid⟩ }
    else { fail with locks := o.set fail.locks h.name r }

def restoreAll (s : St M) (m : List (Sid × List Hold)) : St M :=
  m.foldl (fun s e => e.2.foldl (fun s h => restoreOne o c s e.1 h) s) s

def restart (s : St M) : St M × List Event :=
  let (s, ev) := abandonAll o s s.pending .canceled
  let loaded := if c.hasFile then s.file else []
  let s0 : St M := { now := s.now, locks := o.empty, timers := [], sessions := loaded,
                     file := if c.hasFile then s.file else [], pending := [],
                     gcNext := s.now + c.gcInterval, nreq := s.nreq }
  (restoreAll o c s0 loaded, ev)

/-! ### admin IPC: unlock by name alone picks the last hold of that name in listing order -/

def lastKeyOf (name : Str) (hs : List Hold) : Option Str :=
  ((hs.filter (fun h => h.name = name)).getLast?).map (·.key)

/-- The code takes the last hold of that name in `Locks()` order, which is Go map order across
sessions (and, for calls granted on the same instant, scheduler order within one): the harness
reports the key the implementation picked and the model only checks that it is the key of a listed
hold of that name. Without a report the model takes the last one in its own order. -/
def ipcPick (s : St M) (name chosen : Str) : Option Str :=
  let all := (s.sessions.flatMap (·.2)).filter (fun h => h.name = name)
  if all.any (fun h => h.key = chosen) then some chosen else (all.getLast?).map (·.key)

/-! ### the step function -/

def step (s : St M) : Op → St M × Resp
  | .connect sid =>
    (match get s.sessions sid with
     | none => { s with sessions := set s.sessions sid [] }
     | some _ => s, {})
  | .disconnect sid =>
    let (s, ev1) := abandonAll o s (s.pending.filter (fun p => p.sid = sid)) .canceled
    let (s, ev2) := destroy o c s sid
    (s, { events := ev1 ++ ev2 })
  | .tryLock sid name size lt => srvTryLock o c s sid name size lt
  | .lock sid name size lt wt => srvLock o c s sid name size lt wt
  | .unlock _ name key => srvUnlock o s name key
  | .renew name key t => srvRenew s name key t
  | .advance dt =>
    let (s, ev, tie, out) := advanceTo o c (s.now + dt) (4 * (s.timers.length + s.pending.length) + 100000) s
    (s, { events := ev, tie := tie || out })
  | .gc minIdle => (gcPass o s minIdle, {})
  | .restart =>
    let (s, ev) := restart o c s
    (s, { events := ev })
  | .ipcUnlock name key chosen =>
    let k := if key = [] then ipcPick s name chosen else some key
    (match k with
     | none => (s, { err := some .noLock })
     | some k => srvUnlock o s name k)
  | .cancel req =>
    match s.pending.find? (fun p => p.req = req) with
    | none => (s, {})
    | some p => let (s, ev) := abandon o s p .canceled; (s, { events := ev })

end

/-! ### two representations of the lock table -/

/-- drop every entry whose key's *visible* (first) value fails `p` (so the filter law holds for any list) -/
def filtVisible (p : Str → LockRec → Bool) (m : List (Str × LockRec)) : List (Str × LockRec) :=
  m.filter (fun e => match get m e.1 with | some v => p e.1 v | none => false)

/-- flat association list -/
def flatOps : MapOps (List (Str × LockRec)) where
  empty := []
  get := get
  set := set
  filter := filtVisible
  toList := id

/-- `manager.go`: `shards[h(name) % len(shards)]`, each shard a map; at least one shard -/
structure Sharded where
  shards : List (List (Str × LockRec))
  ne : 0 < shards.length

def Sharded.idx (h : Str → Nat) (m : Sharded) (k : Str) : Nat := h k % m.shards.length

def Sharded.shard (h : Str → Nat) (m : Sharded) (k : Str) : List (Str × LockRec) :=
  (m.shards[m.idx h k]?).getD []

def shardedOps (h : Str → Nat) (n : Nat) : MapOps Sharded where
  empty := ⟨List.replicate (max n 1) [], by simp; omega⟩
  get m k := get (m.shard h k) k
  set m k r := ⟨m.shards.set (m.idx h k) (set (m.shard h k) k r), by simp [m.ne]⟩
  filter p m := ⟨m.shards.map (filtVisible p), by simp [m.ne]⟩
  toList m := m.shards.flatten

end Ldlm.Core
