package conc

import (
	"context"
	"errors"
	"fmt"
	"log/slog"
	"runtime"
	"slices"
	"sort"
	"strings"
	"sync/atomic"
	"testing"
	"testing/synctest"
	"time"

	"verif/harness/common"

	"github.com/imoore76/ldlm/lock"
	ldlmlog "github.com/imoore76/ldlm/log"
	"github.com/imoore76/ldlm/server"
	"github.com/imoore76/ldlm/verifrt"
)

func init() { ldlmlog.SetLevel(slog.Level(12)) }

func testCfg() *server.LockServerConfig {
	c := &server.LockServerConfig{Shards: 4, LockGcInterval: 1000 * time.Hour, LockGcMinIdle: 0, DefaultLockTimeout: 10 * time.Minute}
	c.IPCSocketFile = ""
	c.StateFile = ""
	return c
}

// histogram collects outcome -> count and the first trace of each.
type histogram struct {
	n     map[string]int
	first map[string][]string
}

func newHistogram() *histogram { return &histogram{map[string]int{}, map[string][]string{}} }
func (h *histogram) add(key string, trace []string) {
	if h.n[key] == 0 {
		h.first[key] = trace
	}
	h.n[key]++
}
func (h *histogram) log(t *testing.T) {
	keys := common.SortedKeys(h.n)
	sort.SliceStable(keys, func(i, j int) bool { return h.n[keys[i]] > h.n[keys[j]] })
	for _, k := range keys {
		t.Logf("   x%-6d %s    e.g. %s", h.n[k], k, Compress(h.first[k]))
	}
}

func fullKey(r RunResult) string {
	k := r.Outcome.Key
	if len(r.Panics) > 0 {
		k += " panics=[" + strings.Join(r.Panics, "; ") + "]"
	}
	if len(r.Blocked) > 0 {
		k += " blocked=" + strings.Join(r.Blocked, ",")
	}
	if r.Deadlock != "" {
		k += " " + r.Deadlock
	}
	return k
}

// ---------------------------------------------------------------- D8: TryLock ‖ TryLock ‖ GC(0) ‖ +1ns

type gcRace struct {
	ls     *server.LockServer
	closer func()
	s1, s2 context.Context
	a, b   *server.Lock
}

func locked(l *server.Lock) string {
	if l == nil {
		return "-" // the call did not return (panicked)
	}
	return fmt.Sprint(l.Locked)
}

func gcRaceProgram() Program {
	return Program{
		Name: "trylock||trylock||gc(0)||+1ns",
		Setup: func() any {
			ls, closer, err := server.New(testCfg())
			if err != nil {
				panic(err)
			}
			g := &gcRace{ls: ls, closer: closer}
			_, g.s1 = ls.CreateSession(context.Background(), nil)
			_, g.s2 = ls.CreateSession(context.Background(), nil)
			return g
		},
		Threads: []Thread{
			{"A", func(c any) { g := c.(*gcRace); g.a, _ = g.ls.TryLock(g.s1, "x", nil, nil) }},
			{"B", func(c any) { g := c.(*gcRace); g.b, _ = g.ls.TryLock(g.s2, "x", nil, nil) }},
			{"G", func(c any) { c.(*gcRace).ls.VerifManager().VerifGc(0) }},
		},
		Ticks: []time.Duration{time.Nanosecond},
		Finish: func(c any) Outcome {
			g := c.(*gcRace)
			g.closer()
			return Outcome{Key: fmt.Sprintf("A.locked=%s B.locked=%s", locked(g.a), locked(g.b))}
		},
	}
}

// The unrepaired tree lets GC delete a lock object between getLock and TryLock (DESIGN §2 D8): the
// enumeration must find schedules with two holders of the size-1 lock, or the "deleted lock" panic.
func TestExploreGcRace(t *testing.T) {
	p := gcRaceProgram()
	h := newHistogram()
	both, deleted, maxY := 0, 0, 0
	var firstBoth, firstDeleted []string
	st := time.Now()
	runs, done := ExploreDFS(t, p, 1, 100000, func(r RunResult) bool {
		h.add(fullKey(r), r.Trace)
		maxY = max(maxY, r.Yields)
		if strings.HasPrefix(r.Outcome.Key, "A.locked=true B.locked=true") {
			if both++; firstBoth == nil {
				firstBoth = r.Trace
			}
		}
		if strings.Contains(strings.Join(r.Panics, ";"), "Tried to lock deleted lock") {
			if deleted++; firstDeleted == nil {
				firstDeleted = r.Trace
			}
		}
		return true
	})
	el := time.Since(st).Seconds()
	t.Logf("%s: bound=1 schedules=%d exhausted=%v liveYields(max)=%d  %.2fs = %.0f schedules/s", p.Name, runs, done, maxY, el, float64(runs)/el)
	h.log(t)
	t.Logf("two holders of the size-1 lock: %d schedules; 'Tried to lock deleted lock' panic: %d schedules", both, deleted)
	if both+deleted == 0 {
		t.Fatalf("the GC race (D8) was not found")
	}
	// replay: a recorded trace reproduces its outcome exactly
	for _, tr := range [][]string{firstBoth, firstDeleted} {
		if tr == nil {
			continue
		}
		r1, r2 := RunSchedule(t, p, tr), RunSchedule(t, p, tr)
		if r1.Diverged != 0 || fullKey(r1) != fullKey(r2) || !slices.Equal(r1.Trace, tr) {
			t.Errorf("replay of %s is not faithful: diverged=%d %q vs %q", Compress(tr), r1.Diverged, fullKey(r1), fullKey(r2))
		}
		t.Logf("replay %s -> %s", Compress(tr), fullKey(r1))
	}
	// the PCT-style sampler runs the same program (how often it hits the race is only logged)
	hr := newHistogram()
	ExploreRandom(t, p, 300, common.NewRng(common.Seed()), func(r RunResult) bool { hr.add(fullKey(r), r.Trace); return true })
	t.Logf("random (PCT-style), 300 schedules:")
	hr.log(t)
}

// ---------------------------------------------------------------- W1: Unlock(k) ‖ (Unlock(k); TryLock)

type unlock2 struct {
	ls       *server.LockServer
	closer   func()
	s1, s2   context.Context
	key      string
	ua, ub   bool
	ea, eb   error
	tb       *server.Lock
	finished atomic.Int32
}

func errName(e error) string {
	switch {
	case e == nil:
		return "-"
	case errors.Is(e, lock.ErrInvalidLockKey):
		return "InvalidLockKey"
	case errors.Is(e, lock.ErrLockDoesNotExist):
		return "LockDoesNotExist"
	}
	return e.Error()
}

func TestExploreUnlockUnlock(t *testing.T) {
	p := Program{
		Name: "unlock(k)||(unlock(k);trylock)",
		Setup: func() any {
			ls, closer, err := server.New(testCfg())
			if err != nil {
				panic(err)
			}
			u := &unlock2{ls: ls, closer: closer}
			_, u.s1 = ls.CreateSession(context.Background(), nil)
			_, u.s2 = ls.CreateSession(context.Background(), nil)
			l, _ := ls.TryLock(u.s1, "x", nil, nil)
			u.key = l.Key
			return u
		},
		Threads: []Thread{
			{"A", func(c any) { u := c.(*unlock2); u.ua, u.ea = u.ls.Unlock(u.s1, "x", u.key) }},
			{"B", func(c any) {
				u := c.(*unlock2)
				u.ub, u.eb = u.ls.Unlock(u.s1, "x", u.key)
				u.tb, _ = u.ls.TryLock(u.s2, "x", nil, nil)
			}},
		},
		Finish: func(c any) Outcome {
			u := c.(*unlock2)
			u.closer()
			return Outcome{Key: fmt.Sprintf("A.unlock=%v/%s B.unlock=%v/%s B.trylock=%s", u.ua, errName(u.ea), u.ub, errName(u.eb), locked(u.tb))}
		},
	}
	h := newHistogram()
	maxY := 0
	st := time.Now()
	runs, done := ExploreDFS(t, p, 2, 100000, func(r RunResult) bool {
		k := fullKey(r)
		// no linearization: B's unlock lost to A's, so A's release precedes B's TryLock, which still fails
		if r.Outcome.Key == "A.unlock=true/- B.unlock=false/InvalidLockKey B.trylock=false" {
			k += "   <-- W1 (not linearizable)"
		}
		h.add(k, r.Trace)
		maxY = max(maxY, r.Yields)
		return true
	})
	el := time.Since(st).Seconds()
	t.Logf("%s: bound=2 schedules=%d exhausted=%v liveYields(max)=%d  %.2fs = %.0f schedules/s", p.Name, runs, done, maxY, el, float64(runs)/el)
	h.log(t)
}

// ---------------------------------------------------------------- verifrt.Mutex / RWMutex / OpenMutex

type locker interface {
	Lock()
	Unlock()
}

func TestMutexSelfTest(t *testing.T) {
	verifrt.Reset(false)

	t.Run("mutual-exclusion", func(t *testing.T) { // real goroutines, real parallelism, scheduler off
		var m verifrt.Mutex
		var rw verifrt.RWMutex
		var om verifrt.OpenMutex
		for name, l := range map[string]locker{"Mutex": &m, "RWMutex": &rw, "OpenMutex": &om} {
			var inside, worst atomic.Int32
			counter := 0
			done := make(chan bool)
			for g := 0; g < 8; g++ {
				go func() {
					for i := 0; i < 2000; i++ {
						l.Lock()
						if n := inside.Add(1); n > worst.Load() {
							worst.Store(n)
						}
						counter++
						runtime.Gosched()
						inside.Add(-1)
						l.Unlock()
					}
					done <- true
				}()
			}
			for g := 0; g < 8; g++ {
				<-done
			}
			if counter != 16000 || worst.Load() != 1 {
				t.Errorf("%s: counter=%d (want 16000) max holders=%d (want 1)", name, counter, worst.Load())
			}
		}
	})

	t.Run("rwmutex-sharing-and-writer-preference", func(t *testing.T) {
		synctest.Test(t, func(t *testing.T) { // blocking must be durable: synctest.Wait returns only then
			var rw verifrt.RWMutex
			var ev []string
			var evMu verifrt.Mutex
			log := func(s string) { evMu.Lock(); ev = append(ev, s); evMu.Unlock() }
			expect := func(want string) {
				t.Helper()
				synctest.Wait()
				if got := strings.Join(ev, " "); got != want {
					t.Fatalf("events %q, want %q", got, want)
				}
			}
			rw.RLock()
			go func() { rw.RLock(); log("R2"); rw.RUnlock() }()
			expect("R2") // readers share
			go func() { rw.Lock(); log("W"); time.Sleep(time.Second); rw.Unlock() }()
			expect("R2") // writer waits for the reader
			go func() { rw.RLock(); log("R3"); rw.RUnlock() }()
			expect("R2") // a waiting writer blocks new readers (like sync.RWMutex)
			rw.RUnlock()
			expect("R2 W") // the writer goes first, the reader still waits while it holds the lock
			time.Sleep(2 * time.Second)
			expect("R2 W R3")
			rw.Lock() // and the lock is free again
			rw.Unlock()
		})
	})

	t.Run("mutex-blocks-durably", func(t *testing.T) {
		synctest.Test(t, func(t *testing.T) {
			var m verifrt.Mutex
			var om verifrt.OpenMutex
			got := atomic.Int32{}
			m.Lock()
			om.Lock()
			go func() { m.Lock(); got.Add(1); m.Unlock() }()
			go func() { om.Lock(); got.Add(10); om.Unlock() }()
			synctest.Wait()
			if got.Load() != 0 {
				t.Fatalf("second Lock did not block: %d", got.Load())
			}
			m.Unlock()
			synctest.Wait()
			if got.Load() != 1 {
				t.Fatalf("Mutex waiter not released: %d", got.Load())
			}
			om.Unlock()
			synctest.Wait()
			if got.Load() != 11 {
				t.Fatalf("OpenMutex waiter not released: %d", got.Load())
			}
			func() {
				defer func() {
					if recover() == nil {
						t.Errorf("Unlock of an unlocked Mutex did not panic")
					}
				}()
				m.Unlock()
			}()
		})
	})

	t.Run("yield-suppression-and-registry", func(t *testing.T) { // scheduler on
		synctest.Test(t, func(t *testing.T) {
			verifrt.Reset(false)
			var m verifrt.Mutex
			var rw verifrt.RWMutex
			var om verifrt.OpenMutex
			hooked := []string{}
			verifrt.SnapHook = func(l string) { hooked = append(hooked, l); verifrt.Yield("from-hook") }
			verifrt.Go("T", func() {
				m.Lock()
				verifrt.Yield("in-mutex") // suppressed
				m.Unlock()
				rw.Lock()
				verifrt.Yield("in-wlock") // suppressed
				rw.Unlock()
				rw.RLock()
				verifrt.Yield("in-rlock") // live
				rw.RUnlock()
				om.Lock()
				verifrt.Yield("in-open") // live
				go func() { defer verifrt.Recover(); verifrt.Yield("child"); panic("boom") }()
				om.Unlock()
			})
			verifrt.Go("U", func() { om.Lock(); om.Unlock() })
			synctest.Wait()
			verifrt.Enable()
			verifrt.Yield("scheduler goroutine") // no-op
			var seq []string
			step := func(n string) {
				verifrt.Step(n)
				synctest.Wait()
				seq = append(seq, fmt.Sprintf("%s@%s%v", n, verifrt.Where(n), verifrt.Runnable()))
			}
			step("T") // -> in-rlock
			step("T") // -> in-open, holding om
			step("U") // U blocks in om.Lock: neither parked nor runnable
			step("T") // T ends; its child parks as spawn1; U gets om and finishes
			step("spawn1")
			want := "T@in-rlock[T U] T@in-open[T U] U@[T] T@[spawn1] spawn1@[]"
			if got := strings.Join(seq, " "); got != want {
				t.Errorf("steps: %s\nwant:  %s", got, want)
			}
			if got, want := strings.Join(hooked, ","), "in-mutex,in-wlock,in-rlock,in-open,child"; got != want {
				t.Errorf("hook saw %s, want %s", got, want)
			}
			if got := verifrt.Panics(); len(got) != 1 || got[0] != "goroutine spawn1 panicked: boom" {
				t.Errorf("panics: %q", got)
			}
			if verifrt.YieldCount() != 3 || len(verifrt.Unfinished()) != 0 {
				t.Errorf("yields=%d unfinished=%v", verifrt.YieldCount(), verifrt.Unfinished())
			}
			verifrt.Disable()
		})
		verifrt.Reset(false)
	})
}
