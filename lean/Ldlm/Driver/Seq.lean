import Ldlm.Model.Core
import Ldlm.Driver.Util
/-! `driver seq`: the line protocol of the sequential correspondence check (DESIGN §5.4).
First line `cfg …`, then one operation per line; one response line per operation carrying the
response and the canonical snapshot (listing, lock table, file, timers, blocked requests). -/
namespace Ldlm.Driver
open Ldlm.Core

/-- tokens: `=` followed by the bytes, `%XX` for anything outside the printable ASCII range -/
def decTok (t : String) : Str :=
  let rec go : List Char → List Nat
    | '%' :: a :: b :: rest => (hexVal a * 16 + hexVal b) :: go rest
    | c :: rest => (c.toNat) :: go rest
    | [] => []
  match t.toList with
  | '=' :: rest => go rest
  | cs => go cs

def encTok (s : Str) : String :=
  "=" ++ String.join (s.map fun b =>
    if b > 32 ∧ b < 127 ∧ b ≠ 37 ∧ b ≠ 44 ∧ b ≠ 59 ∧ b ≠ 91 ∧ b ≠ 93 ∧ b ≠ 124 ∧ b ≠ 47 ∧ b ≠ 58
    then String.singleton (Char.ofNat b)
    else "%" ++ String.ofList [hexDigit (b / 16 % 16), hexDigit (b % 16)])

def optInt (t : String) : Option Int := if t = "-" then none else t.toInt?
def optSid (t : String) : Option Sid := if t = "-" then none else some (decTok t)

def errName : Err → String
  | .session => "SessionDoesNotExist" | .emptyName => "EmptyName" | .badLockTimeout => "InvalidLockTimeout"
  | .badWaitTimeout => "InvalidWaitTimeout" | .badSize => "InvalidLockSize" | .sizeMismatch => "LockSizeMismatch"
  | .noLock => "LockDoesNotExist" | .badKey => "InvalidLockKey" | .waitTimeout => "LockWaitTimeout"
  | .noLockOrKey => "LockDoesNotExistOrInvalidKey" | .canceled => "Canceled"

def showErr : Option Err → String
  | none => "-"
  | some e => errName e

def strLe (a b : String) : Bool := a ≤ b

/-- holds of one session, sorted: the order in which two calls woken on the same instant reach
`AddLock` is the Go scheduler's choice -/
def showHolds (hs : List Hold) : String :=
  "[" ++ String.intercalate "," ((hs.map fun h => s!"{encTok h.name}/{encTok h.key}/{h.size}").mergeSort strLe) ++ "]"

def showSess (m : List (Sid × List Hold)) : String :=
  String.intercalate ";" ((m.map fun e => encTok e.1 ++ ":" ++ showHolds e.2).mergeSort strLe)

def showTable (t : List (Str × LockRec)) : String :=
  String.intercalate ";" ((t.map fun e =>
    s!"{encTok e.1}:{e.2.size}:[{String.intercalate "," ((e.2.keys.map encTok).mergeSort strLe)}]:la={e.2.lastAccessed}").mergeSort strLe)

def showTimers (t : List (Str × Timer)) : String :=
  String.intercalate ";" ((t.map fun e => encTok e.1).mergeSort strLe)

def showEvents (ev : List Event) : String :=
  String.intercalate "," ((ev.map fun
    | .done req locked key err => s!"{req}:{if locked then 1 else 0}:{if locked then encTok key else "-"}:{showErr err}").mergeSort strLe)

def parseOp (ws : List String) : Option Op :=
  match ws with
  | ["connect", s] => some (.connect (decTok s))
  | ["disconnect", s] => some (.disconnect (decTok s))
  | ["trylock", s, n, sz, lt] => some (.tryLock (optSid s) (decTok n) (optInt sz) (optInt lt))
  | ["lock", s, n, sz, lt, wt] => some (.lock (optSid s) (decTok n) (optInt sz) (optInt lt) (optInt wt))
  | ["unlock", s, n, k] => some (.unlock (optSid s) (decTok n) (decTok k))
  | ["renew", n, k, t] => (t.toInt?).map fun t => .renew (decTok n) (decTok k) t
  | ["adv", d] => d.toNat?.map .advance
  | ["gc", d] => d.toNat?.map .gc
  | ["restart"] => some .restart
  | ["ipcunlock", n, k, c] => some (.ipcUnlock (decTok n) (if k = "-" then [] else decTok k) (if c = "-" then [] else decTok c))
  | ["cancel", r] => r.toNat?.map .cancel
  | _ => none

def genKey (n : Nat) : Str := 75 :: natDigits n          -- "K<n>"

def kv (ws : List String) (k : String) : Option String :=
  (ws.find? (fun w => w.startsWith (k ++ "="))).map (fun w => (w.drop (k.length + 1)).toString)

def kvNat (ws : List String) (k : String) (d : Nat) : Nat := ((kv ws k).bind String.toNat?).getD d

structure SeqState (M : Type) where
  cfg : Cfg
  st  : St M

def respLine {M} (o : MapOps M) (c : Cfg) (s : St M) (r : Resp) : String :=
  s!"r ok={if r.ok then 1 else 0} key={if r.ok ∧ r.key ≠ [] then encTok r.key else "-"} err={showErr r.err} pending={if r.pending then 1 else 0} tie={if r.tie then 1 else 0} ev=[{showEvents r.events}]" ++
  s!" | L={showSess s.sessions} | T={showTable (o.toList s.locks)} | F={if c.hasFile then showSess s.file else "-"} | TM={showTimers s.timers} | P=[{String.intercalate "," ((s.pending.map (·.req)).mergeSort (· ≤ ·) |>.map toString)}] | now={s.now}"

def sumHash (s : Str) : Nat := s.foldl (fun a b => (a * 31 + b) % 4294967296) 7

/-- `restartwith <sid> (<name> <key> <size>)*`: the file left for the restart lists the extra holds after
the holds of session `sid` (a crash image with more entries than the server had acknowledged, as
C09's K4 produces); not an operation of the server model: the driver edits the file, then `restart` -/
def parseExtra : List String → Option (List Hold)
  | [] => some []
  | n :: k :: z :: rest => match z.toInt?, parseExtra rest with
    | some z, some hs => some (⟨decTok n, decTok k, z⟩ :: hs)
    | _, _ => none
  | _ => none

/-- some lock name is listed under two different sessions: which session `server.New` restores first is
Go map order, so the outcome of a conflict between them is not determined -/
def crossSession (file : List (Sid × List Hold)) : Bool :=
  file.any fun e => e.2.any fun h => file.any fun e' => e'.1 ≠ e.1 && e'.2.any fun h' => h'.name = h.name

def injectFile {M} (s : St M) (sid : Sid) (hs : List Hold) : St M :=
  { s with file := AMap.set s.file sid (((AMap.get s.file sid).getD []) ++ hs) }

partial def seqLoop {M} (o : MapOps M) (c : Cfg) (h : IO.FS.Stream) (out : IO.FS.Stream) (s : St M) : IO Unit := do
  let line ← h.getLine
  if line.isEmpty then return ()
  let ws := (line.trimAscii.toString.splitOn " ").filter (· ≠ "")
  match ws with
  | ["end"] => out.putStrLn "end-ok"; out.flush; return ()
  | "restartwith" :: sid :: rest =>
    match parseExtra rest with
    | none => out.putStrLn "bad-op"; out.flush; seqLoop o c h out s
    | some hs =>
      let s0 := injectFile s (decTok sid) hs
      let (s', r) := step o c s0 .restart
      out.putStrLn (respLine o c s' { r with tie := r.tie || (c.hasFile && crossSession s0.file) })
      out.flush
      seqLoop o c h out s'
  | _ =>
    match parseOp ws with
    | none => out.putStrLn "bad-op"; out.flush; seqLoop o c h out s
    | some op =>
      let (s', r) := step o c s op
      out.putStrLn (respLine o c s' r)
      out.flush
      seqLoop o c h out s'

/-- histories one after the other: `cfg` line, operations, `end` -/
partial def seqMain : IO Unit := do
  let h ← IO.getStdin
  let out ← IO.getStdout
  let line ← h.getLine
  if line.isEmpty then return ()
  let ws := (line.trimAscii.toString.splitOn " ").filter (· ≠ "")
  match ws with
  | "cfg" :: rest =>
    let c : Cfg := { gcInterval := kvNat rest "gcint" 0, gcMinIdle := kvNat rest "gcidle" 0,
                     dlt := kvNat rest "dlt" (600 * sec), noClear := kvNat rest "noclear" 0 = 1,
                     hasFile := kvNat rest "file" 1 = 1, genKey := genKey }
    let shards := kvNat rest "shards" 0
    out.putStrLn "cfg-ok"; out.flush
    if kvNat rest "flat" 0 = 1 then
      seqLoop flatOps c h out (init flatOps c)
    else
      let o := shardedOps sumHash shards
      seqLoop o c h out (init o c)
    seqMain
  | _ => out.putStrLn "bad-cfg"; out.flush; seqMain

end Ldlm.Driver
