package restc

import (
	"testing"

	"verif/harness/common"
)

// TestRest runs the sequential REST drivers; VERIF_PROP selects C15 or C20.
func TestRest(t *testing.T) {
	res := common.NewResult("rest")
	defer func() {
		if err := res.Write(); err != nil {
			t.Fatalf("writing the result file: %v", err)
		}
	}()
	switch common.Prop() {
	case "C15":
		runC15(t, res)
	case "C20":
		runC20(t, res)
	default:
		t.Fatalf("VERIF_PROP must be C15 or C20 (got %q)", common.Prop())
	}
}
