import Ldlm.Generated.Facts
/-!
Pins for C07: the lease-timer key.  M2's `tkey name key` is the byte string
`decimal(len(name)) ++ ":" ++ name ++ key`, proved injective (`Proofs/TKey.lean`).  The expression in
`server.go`'s `lockTimerKey` and its use at every timer call site are regenerated from the source.
-/
namespace Ldlm.Pins.C07
open Ldlm

/-- the function body the model's `tkey` transcribes -/
theorem pin_lockTimerKey : Facts.lockKeyFn = some "strconv.Itoa(len(name)) + \":\" + name + key" := rfl

/-- every call site of the lease-timer map goes through it, with the hold's own name and key -/
theorem pin_timerKeyArgs : Facts.timerKeyArgs = [
    ("New.Add", "lockTimerKey(lk.Name(), lk.Key())"),
    ("Lock.Add", "lockTimerKey(name, key)"),
    ("Unlock.Remove", "lockTimerKey(name, key)"),
    ("TryLock.Add", "lockTimerKey(name, key)"),
    ("Renew.Reset", "lockTimerKey(name, key)"),
    ("DestroySession.Remove", "lockTimerKey(lk.Name(), lk.Key())")] := rfl

end Ldlm.Pins.C07
