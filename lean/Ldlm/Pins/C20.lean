import Ldlm.Generated.Facts
/-!
Pins: the normalised source text of the small decision functions the hand-written models M4/M6/M7
were written against.  `Generated/Facts.lean` is regenerated from /repo on every run; each `pin_*`
theorem below breaks when the function's text changes (comment-only and whitespace-only edits do
not change the normalised text).  A broken pin is a broken proof obligation: the models may no
longer describe the code, and the check then searches the implementation for a failing input.
This file is written by hand (copied from the facts at the time the models were written) and is
NOT regenerated.

This file: the functions the models of C20 are written against. A change to one of them breaks
exactly the checks of the properties that pin it.
-/
namespace Ldlm.Pins.C20
open Ldlm

def expectedValidateSession : String := "{ sessionId, err := r.Cookie(sessionCookieName) if err != nil { w.Header().Add(\"Content-Type\", \"application/json\") w.WriteHeader(http.StatusUnauthorized) fmt.Fprintf(w, `{\"error\": \"session cookie not found. create a new session at %s\"}`, sessionPath) return nil, false } h.sessionsMtx.Lock() defer h.sessionsMtx.Unlock() ok, err := h.timerMgr.Reset(sessionId.Value, h.sessionExpiration) if !ok || err != nil { w.Header().Add(\"Content-Type\", \"application/json\") w.WriteHeader(http.StatusUnauthorized) fmt.Fprintf(w, `{\"error\": \"session cookie invalid or expired. create a new session at %s\"}`, sessionPath) return nil, false } s := h.sessions[sessionId.Value] s.mtx.Lock() http.SetCookie(w, &http.Cookie{ Name: sessionCookieName, Value: sessionId.Value, Expires: time.Now().Add(h.sessionExpiration), Path: \"/\", }) return s, true }"

theorem pin_ValidateSession : Facts.bodyValidateSession = expectedValidateSession := rfl

def expectedRestDestroySession : String := "{ sessionId, err := r.Cookie(sessionCookieName) if err != nil { w.WriteHeader(http.StatusInternalServerError) s, _ := json.Marshal(map[string]string{\"error\": err.Error()}) fmt.Fprint(w, string(s)) return } h.sessionsMtx.Lock() s, ok := h.sessions[sessionId.Value] if !ok { h.sessionsMtx.Unlock() w.WriteHeader(http.StatusConflict) fmt.Fprint(w, `{\"error\": \"session not found\"}`) return } h.timerMgr.Remove(sessionId.Value) delete(h.sessions, sessionId.Value) h.sessionsMtx.Unlock() s.mtx.Lock() defer s.mtx.Unlock() h.grpcSrv.HandleConn(s.ctx, &stats.ConnEnd{}) http.SetCookie(w, &http.Cookie{ Name: sessionCookieName, Value: \"\", Expires: time.Time{}, Path: \"/\", }) w.Header().Add(\"Content-Type\", \"application/json\") w.WriteHeader(http.StatusOK) fmt.Fprint(w, `{\"session_id\": \"\"}`) }"

theorem pin_RestDestroySession : Facts.bodyRestDestroySession = expectedRestDestroySession := rfl

def expectedRestCreateSession : String := "{ sessionId := strings.ReplaceAll(uuid.NewString(), \"-\", \"\") var ip string if idx := strings.LastIndex(r.RemoteAddr, \":\"); idx == -1 { ip = \"0.0.0.0\" } else { ip = r.RemoteAddr[:idx] } ctx := h.grpcSrv.TagConn(r.Context(), &stats.ConnTagInfo{ RemoteAddr: &net.TCPAddr{ IP: net.ParseIP(ip), Port: 0, }, }) cxLogger := log.FromContextOrDefault(ctx) cxLogger = cxLogger.With(\"rest_session_id\", sessionId) ctx = log.ToContext(cxLogger, ctx) h.sessionsMtx.Lock() h.sessions[sessionId] = &session{ ctx: ctx, mtx: sync.Mutex{}, } h.timerMgr.Add( sessionId, h.onTimeoutFunc(sessionId), h.sessionExpiration, ) h.sessionsMtx.Unlock() http.SetCookie(w, &http.Cookie{ Name: sessionCookieName, Value: sessionId, Expires: time.Now().Add(h.sessionExpiration), Path: \"/\", }) w.Header().Add(\"Content-Type\", \"application/json\") w.WriteHeader(http.StatusCreated) fmt.Fprintf(w, `{\"session_id\": \"%s\"}`, sessionId) }"

theorem pin_RestCreateSession : Facts.bodyRestCreateSession = expectedRestCreateSession := rfl

def expectedRestOnTimeout : String := "{ return func() { h.sessionsMtx.Lock() s, ok := h.sessions[sessionId] if !ok { h.sessionsMtx.Unlock() return } delete(h.sessions, sessionId) ctxLog := log.FromContextOrDefault(s.ctx) ctxLog.Info( \"REST session timeout\", \"rest_session_id\", sessionId, \"idle\", h.sessionExpiration, ) defer s.mtx.Unlock() s.mtx.Lock() h.sessionsMtx.Unlock() h.grpcSrv.HandleConn(s.ctx, &stats.ConnEnd{}) } }"

theorem pin_RestOnTimeout : Facts.bodyRestOnTimeout = expectedRestOnTimeout := rfl

def expectedServeHTTP : String := "{ if ok := h.ValidatePassword(w, r); !ok { return } if r.URL.Path == sessionPath && r.Method == http.MethodPost { h.CreateSession(w, r) return } else if r.URL.Path == sessionPath && r.Method == http.MethodDelete { h.DestroySession(w, r) return } s, ok := h.ValidateSession(w, r) if !ok { return } defer s.mtx.Unlock() h.mux.ServeHTTP(w, r.WithContext(s.ctx)) }"

theorem pin_ServeHTTP : Facts.bodyServeHTTP = expectedServeHTTP := rfl

def expectedTimerAdd : String := "{ m.timersMtx.Lock() defer m.timersMtx.Unlock() m.timers[key] = time.AfterFunc( timeout, func() { onTimeout() m.Remove(key) }, ) }"

theorem pin_TimerAdd : Facts.bodyTimerAdd = expectedTimerAdd := rfl

def expectedTimerRemove : String := "{ m.timersMtx.Lock() defer m.timersMtx.Unlock() stopped := true if _, ok := m.timers[key]; ok { stopped = m.timers[key].Stop() delete(m.timers, key) } return stopped }"

theorem pin_TimerRemove : Facts.bodyTimerRemove = expectedTimerRemove := rfl

def expectedTimerReset : String := "{ m.timersMtx.Lock() defer m.timersMtx.Unlock() t, ok := m.timers[key] if ok { if t.Stop() { t.Reset(timeout) return true, nil } else { return false, nil } } return false, ErrTimerDoesNotExist }"

theorem pin_TimerReset : Facts.bodyTimerReset = expectedTimerReset := rfl

end Ldlm.Pins.C20
