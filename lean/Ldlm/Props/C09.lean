import Ldlm.Model.Crash
import Ldlm.Props.C17
/-!
C09 — A kill at any instant leaves a loadable, acknowledged-consistent state file.

Model M7 (`Ldlm.Crash`): one step per file operation of `store.Write` (pinned to its source text:
`Pins.C09.pin_StoreWrite`) and per manager call of the server threads; a crash point is ANY reachable
state of ANY schedule.

* `always_loadable` — at every crash point the file is either a complete encoding of a bookkeeping
  table or empty; both load (C17: `dec_enc`; `store.Read` treats an empty file as "no state"), so a
  new server always starts.
* `acked_consistent_partial` — **partial** (hypothesis: the kill is not between `Truncate(0)` and
  `Write`): every hold whose grant was answered and that has neither left the lock table nor had its
  lease timer fire nor had its session end is restored, and no hold whose release was answered is.  Operations in flight may
  go either way.  (The "lease timer fired" exemption came from the trace validation of M7: on that
  path `LockServer.Unlock` removes the bookkeeping entry and answers before the callback has taken
  the hold out of the table — the model had no such step and rejected those schedules.)
* `crash_in_truncate_window` — K3 (known finding): a kill between the two file operations leaves an
  empty file and every acknowledged hold is lost.
* `crash_overcapacity_file` — K4 (known finding): the table releases the unit before the bookkeeping
  entry is removed; a re-grant in between is written to the file together with the stale entry: the
  file lists two holds of a size-1 lock.
* `session_end_leaves_no_stale_entry` — a session end takes its holds out of the bookkeeping (one rewrite)
  BEFORE its clean-up loop releases them: no image ever lists an ended session's hold next to the hold of
  the waiter that got its unit.
* `file_matches_bookkeeping` — outside a rewrite the file is exactly the bookkeeping as of the last
  completed change.
Power loss / fsync ordering is out of scope (process-kill model).
-/
namespace Ldlm.Props.C09
open Ldlm.Crash

structure Inv (s : St) : Prop where
  saved   : s.unsaved = false → s.file = .table s.book
  emptyU  : s.file = .empty → s.unsaved = true
  bh      : ∀ p ∈ s.book, p ∈ s.held ∨ p ∈ s.ended
  endedNH : ∀ p ∈ s.ended, p ∉ s.held
  grants  : ∀ p ∈ s.ackGrant, p ∉ s.ended → p ∉ s.expiring → p ∉ s.dying → p ∈ s.book ∧ (∀ hs, s.file = .table hs → p ∈ hs)
  rels    : ∀ p ∈ s.ackRel, p ∈ s.booked ∧ p ∉ s.book ∧ (∀ hs, s.file = .table hs → p ∉ hs)
  bb      : ∀ p ∈ s.book, p ∈ s.booked
  dy      : ∀ p ∈ s.dying, p ∉ s.book ∧ p ∈ s.booked
  dyfile  : s.unsaved = false → ∀ p ∈ s.dying, ∀ hs, s.file = .table hs → p ∉ hs

theorem init_inv : Inv init := by
  refine ⟨?_, ?_, ?_, ?_, ?_, ?_, ?_, ?_, ?_⟩ <;> simp [init]

set_option maxHeartbeats 1000000 in
theorem step_inv (s s' : St) (a : Act) (h : Inv s) (hs : step s a = some s') : Inv s' := by
  obtain ⟨hsv, hem, hbh, hen, hgr, hrl, hbb, hdy, hdf⟩ := h
  cases a with
  | tableAdd p =>
    simp only [step] at hs
    split at hs
    · cases hs
    · simp at hs; subst hs
      refine ⟨?_, ?_, ?_, ?_, ?_, ?_, ?_, ?_, ?_⟩ <;> intros <;> simp_all <;> (try (first | done | grind))
  | tableDel p =>
    simp only [step] at hs
    split at hs
    · simp at hs; subst hs
      refine ⟨?_, ?_, ?_, ?_, ?_, ?_, ?_, ?_, ?_⟩ <;> intros <;> simp_all <;> (try (first | done | grind))
    · cases hs
  | bookAdd p =>
    simp only [step] at hs
    split at hs
    · cases hs
    · rename_i hcond
      simp at hcond
      simp at hs; subst hs
      have hne : ∀ q ∈ s.ackRel, q ≠ p := fun q hq e => hcond.2.2.2 (e ▸ (hrl q hq).1)
      refine ⟨?_, ?_, ?_, ?_, ?_, ?_, ?_, ?_, ?_⟩
      · intro h; cases h
      · intro h; simp_all
      · intro q hq; simp at hq; rcases hq with hq | hq
        · exact hbh q hq
        · left; rw [hq]; exact hcond.2.1
      · exact hen
      · intro q hq he hx hd
        obtain ⟨h1, h2⟩ := hgr q hq he hx hd
        exact ⟨by simp; exact Or.inl h1, h2⟩
      · intro q hq
        obtain ⟨h1, h2, h3⟩ := hrl q hq
        exact ⟨by simp; exact Or.inr h1, by simp; exact ⟨h2, hne q hq⟩, h3⟩
      · intro q hq; simp at hq ⊢; rcases hq with hq | hq
        · exact Or.inr (hbb q hq)
        · exact Or.inl hq
      · intro q hq
        obtain ⟨h1, h2⟩ := hdy q hq
        refine ⟨?_, by simp; exact Or.inr h2⟩
        simp; exact ⟨h1, fun e => hcond.2.2.2 (e ▸ h2)⟩
      · intro h; cases h
  | bookDel p =>
    simp only [step] at hs
    split at hs
    · cases hs
    · rename_i hcond
      simp at hcond
      simp at hs; subst hs
      refine ⟨?_, ?_, ?_, ?_, ?_, ?_, ?_, ?_, ?_⟩
      · intro h; cases h
      · intro h; simp_all
      · intro q hq; exact hbh q (List.mem_filter.mp hq).1
      · exact hen
      · intro q hq he hx hd
        obtain ⟨h1, h2⟩ := hgr q hq he hx hd
        refine ⟨?_, h2⟩
        have hqp : q ≠ p := by
          intro e
          rcases hbh q h1 with hh | hh
          · exact hx (e ▸ hcond.2 (e ▸ hh))
          · exact he hh
        simp; exact ⟨h1, hqp⟩
      · intro q hq
        obtain ⟨h1, h2, h3⟩ := hrl q hq
        exact ⟨h1, fun hm => h2 (List.mem_filter.mp hm).1, h3⟩
      · intro q hq; exact hbb q (List.mem_filter.mp hq).1
      · intro q hq
        obtain ⟨h1, h2⟩ := hdy q hq
        exact ⟨fun hm => h1 (List.mem_filter.mp hm).1, h2⟩
      · intro h; cases h
  | truncate =>
    simp only [step] at hs
    split at hs
    · simp at hs; subst hs
      refine ⟨?_, ?_, ?_, ?_, ?_, ?_, ?_, ?_, ?_⟩ <;> intros <;> simp_all <;> (try (first | done | grind))
    · cases hs
  | write =>
    simp only [step] at hs
    split at hs
    · simp at hs; subst hs
      refine ⟨?_, ?_, ?_, ?_, ?_, ?_, ?_, ?_, ?_⟩ <;> intros <;> simp_all <;> (try (first | done | grind))
    · cases hs
  | answerGrant p =>
    simp only [step] at hs
    split at hs
    · simp at hs; subst hs
      refine ⟨?_, ?_, ?_, ?_, ?_, ?_, ?_, ?_, ?_⟩ <;> intros <;> simp_all <;> (try (first | done | grind))
    · cases hs
  | answerRelease p =>
    simp only [step] at hs
    split at hs
    · simp at hs; subst hs
      refine ⟨?_, ?_, ?_, ?_, ?_, ?_, ?_, ?_, ?_⟩ <;> intros <;> simp_all <;> (try (first | done | grind))
    · cases hs
  | expire p =>
    simp only [step] at hs
    split at hs
    · simp at hs; subst hs
      refine ⟨hsv, hem, hbh, hen, ?_, hrl, hbb, hdy, hdf⟩
      intro q hq he hx hd
      simp at hx
      exact hgr q hq he hx.2 hd
    · cases hs
  | destroy ps =>
    simp only [step] at hs
    split at hs
    · cases hs
    · rename_i hcond
      simp at hcond
      simp at hs; subst hs
      refine ⟨?_, ?_, ?_, ?_, ?_, ?_, ?_, ?_, ?_⟩
      · intro h; cases h
      · intro h; simp_all
      · intro q hq; exact hbh q (List.mem_filter.mp hq).1
      · exact hen
      · intro q hq he hx hd
        simp at hd
        obtain ⟨h1, h2⟩ := hgr q hq he hx hd.2
        refine ⟨?_, h2⟩
        simp; exact ⟨h1, hd.1⟩
      · intro q hq
        obtain ⟨h1, h2, h3⟩ := hrl q hq
        exact ⟨h1, fun hm => h2 (List.mem_filter.mp hm).1, h3⟩
      · intro q hq; exact hbb q (List.mem_filter.mp hq).1
      · intro q hq
        simp at hq
        rcases hq with hq | hq
        · exact ⟨by simp; intro _; exact hq, hbb q (hcond.2 q.1 q.2 hq)⟩
        · obtain ⟨h1, h2⟩ := hdy q hq
          exact ⟨fun hm => h1 (List.mem_filter.mp hm).1, h2⟩
      · intro h; cases h

theorem reachable_inv : ∀ (as : List Act) (s s' : St), Inv s → run s as = some s' → Inv s' := by
  intro as
  induction as with
  | nil => intro s s' h hr; simp [run] at hr; rw [← hr]; exact h
  | cons a as ih =>
    intro s s' h hr
    simp only [run] at hr
    cases hs : step s a with
    | none => simp [hs] at hr
    | some s1 => simp only [hs] at hr; exact ih s1 s' (step_inv s s1 a h hs) hr

/-- at every crash point the file is a complete table encoding or empty -/
theorem always_loadable (as : List Act) (s : St) (_hr : run init as = some s) :
    (∃ hs, s.file = .table hs) ∨ s.file = .empty := by
  cases hf : s.file with
  | table hs => exact Or.inl ⟨hs, rfl⟩
  | empty => exact Or.inr rfl

/-- … and a complete table encoding decodes to that table (M0's round trip), an empty file is "no state" -/
theorem table_image_decodes (m : List (Ldlm.Codec.Bytes × List Ldlm.Codec.Hold)) (hw : Ldlm.Codec.wfMap m) :
    (Ldlm.Codec.decode (Ldlm.Codec.encMap m)).1 = .ok m := Ldlm.Props.C17.dec_enc m hw

theorem empty_image_loads : (Ldlm.Codec.File.load { bytes := [] }).1 = .ok [] := by decide

/-- **C09 (partial: the kill is not inside a rewrite)** -/
theorem acked_consistent_partial (as : List Act) (s : St) (hr : run init as = some s) (hout : ¬ inRewrite s) :
    (∀ p ∈ s.ackGrant, p ∉ s.ended → p ∉ s.expiring → p ∉ s.dying → p ∈ recovered s) ∧ (∀ p ∈ s.ackRel, p ∉ recovered s) := by
  have hi := reachable_inv as init s init_inv hr
  unfold inRewrite at hout
  unfold recovered
  cases hf : s.file with
  | empty => exact absurd hf hout
  | table hs =>
    simp only
    exact ⟨fun p hp he hx hd => (hi.grants p hp he hx hd).2 hs hf, fun p hp => (hi.rels p hp).2.2 hs hf⟩

theorem file_matches_bookkeeping (as : List Act) (s : St) (hr : run init as = some s) (hsaved : s.unsaved = false) :
    s.file = .table s.book :=
  (reachable_inv as init s init_inv hr).saved hsaved

/-- a session end never leaves a stale entry: the holds of an ended session are out of the bookkeeping from the
moment `DestroySession` has run - before the clean-up loop gives their capacity to anybody else - and out of
the file once that rewrite has finished. (K4's over-capacity file needs the other order - table first - which
only Unlock and the lease callback have.) -/
theorem session_end_leaves_no_stale_entry (as : List Act) (s : St) (hr : run init as = some s) :
    ∀ p ∈ s.dying, p ∉ s.book ∧ (s.unsaved = false → p ∉ recovered s) := by
  have hi := reachable_inv as init s init_inv hr
  intro p hp
  refine ⟨(hi.dy p hp).1, ?_⟩
  intro hu
  unfold recovered
  cases hf : s.file with
  | empty => simp
  | table hs => exact hi.dyfile hu p hp hs hf

/-- … so a waiter that gets the unit of an ended session's hold is written to a file that no longer lists that hold -/
example : (run init [.tableAdd (1, 1), .bookAdd (1, 1), .truncate, .write, .answerGrant (1, 1),
                     .destroy [(1, 1)], .truncate, .write, .tableDel (1, 1),
                     .tableAdd (1, 2), .bookAdd (1, 2), .truncate, .write, .answerGrant (1, 2)]).map
    (fun s => (recovered s, s.dying)) = some ([(1, 2)], [(1, 1)]) := by decide

/-! ### K3, K4: the two recorded violations of the unrestricted statement -/

/-- K3: grant of hold (1,1) acknowledged; a second grant's rewrite is killed between `Truncate` and
`Write`: the file is empty and the acknowledged live hold is not restored -/
theorem crash_in_truncate_window :
    (run init [.tableAdd (1, 1), .bookAdd (1, 1), .truncate, .write, .answerGrant (1, 1),
               .tableAdd (2, 2), .bookAdd (2, 2), .truncate]).map
      (fun s => (s.ackGrant, s.ended, recovered s)) = some ([(1, 1)], [], []) := by decide

/-- K4: lease expiry of (1,1) has released the unit (C1) but not yet removed the bookkeeping entry (C2);
a TryLock re-grants lock 1 with key 2 and its `AddLock` rewrites the file: two holds of lock 1 -/
theorem crash_overcapacity_file :
    (run init [.tableAdd (1, 1), .bookAdd (1, 1), .truncate, .write, .answerGrant (1, 1),
               .tableDel (1, 1), .tableAdd (1, 2), .bookAdd (1, 2), .truncate, .write]).map
      (fun s => ((recovered s).filter (·.1 = 1)).length) = some 2 := by decide

/-! non-vacuity of the partial theorem: grant, acknowledged; unlock, acknowledged; outside a rewrite -/
example : (run init [.tableAdd (1, 1), .bookAdd (1, 1), .truncate, .write, .answerGrant (1, 1),
                     .tableDel (1, 1), .bookDel (1, 1), .truncate, .write, .answerRelease (1, 1)]).map
    (fun s => (recovered s, s.ackGrant, s.ackRel)) = some ([], [(1, 1)], [(1, 1)]) := by decide

end Ldlm.Props.C09
