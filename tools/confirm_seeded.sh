#!/bin/sh
# confirm.sh <id>: independent confirmation of a seeded change in its scratch worktree
id=$1; wt=/tmp/wt/$id; out=/tmp/wt/out/$id
G="env -u GOFLAGS -u GOPROXY -u GOSUMDB -u GOTOOLCHAIN GOFLAGS=-mod=mod GOPROXY=off go"
cd $wt || exit 2
{
echo "== worktree diff vs patch"
git diff -- . ':!*_test.go' > /tmp/wt/out/$id/.cur.diff
if diff -q /tmp/wt/out/$id/.cur.diff $out/patch.diff >/dev/null; then echo "patch == worktree diff"; else echo "patch differs from worktree diff: resetting worktree to patch"; git checkout -- . ; git apply $out/patch.diff || exit 3; fi
demo=$(git status --short | grep '^??' | awk '{print $2}' | grep -v '^\.' )
echo "untracked: $demo"
echo "== build"; $G build ./... && echo BUILD-OK
echo "== suite (demo files moved out)"
mkdir -p /tmp/wt/out/$id/.hold; for f in $demo; do mkdir -p /tmp/wt/out/$id/.hold/$(dirname $f); mv $f /tmp/wt/out/$id/.hold/$f; done
$G test -count=1 -vet=off ./... 2>&1 | grep -v "no test files" | tail -25
for f in $demo; do mv /tmp/wt/out/$id/.hold/$f $f; done
} > $out/confirm.log 2>&1
echo "$id suite: $(grep -c '^ok' $out/confirm.log) ok, $(grep -c '^FAIL\|^--- FAIL' $out/confirm.log) fail"
