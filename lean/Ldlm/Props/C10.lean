import Ldlm.Proofs.CoreRestart
import Ldlm.Proofs.CoreLease
import Ldlm.Props.C01
import Ldlm.Props.C04
import Ldlm.Props.C17
import Ldlm.Props.C18
import Ldlm.Generated.Facts
/-!
C10 — Restart restores holds with the default lease; ended holds stay ended.

M2's `restart` is `server.New` on the state file the previous run left (`restoreAll`: for every
persisted hold `TryLock` with its key and size, then either `RemoveLock` or a default-lease timer —
the call list and the timeout expression of that loop are regenerated from the source:
`restore_loop_pinned`).  All theorems are for an arbitrary state before the restart (any history),
any configuration, any file content (`restoreAll` is a fold over an arbitrary table).

* `restored_occupy_capacity` — (C01) after any history containing any number of restarts no lock has
  more holders than its size: a file listing more holds than a lock's size restores at most `size`.
* `restored_has_default_lease` — every hold in the table after a restart has a lease timer whose
  deadline is restart time + `DefaultLockTimeout`; `only_default_leases` — and there is no other timer.
* `restored_expires_exactly` — such a hold is still held at every instant before that deadline
  unless unlocked (`lease_not_early`), and no timer with a deadline ≤ the clock survives an advance
  (`lease_prompt`): expiry at exactly the default lock timeout.
* `restored_unlock_any_session` / `restored_renew_any_session` — Unlock and Renew do not look at the
  calling session at all (the model's `unlock` ignores its session argument, `renew` has none); with
  the original key on a restored hold they succeed (`restored_unlock_succeeds`, `restored_renew_succeeds`).
* `restored_only_from_file` — a hold in the table after a restart is listed in the file it loaded;
  `ended_stays_ended` — hence a hold that had ended before the restart (not in the table, invariant
  `InvS` ties table, bookkeeping and file together) is not held after it; `…_reachable`: for the
  state after ANY history, with no hypothesis but lawfulness and key freshness (restart itself
  preserves the invariant: `Proofs/CoreRestart.restart_inv'`).
* `startup_total` — `restart` is a total function on every file content: together with C17
  (`file_decodes`: every file the server writes decodes) startup cannot fail on its own file.  The
  nil dereference on a failed restore was in the logging argument (`err.Error()` on a nil error),
  repaired by commit 20311a8; the seq stream restarts on over-capacity files (C09's K4).
-/
namespace Ldlm.Props.C10
open Ldlm.Core

variable {M : Type} (o : MapOps M) (c : Cfg)

theorem restored_occupy_capacity (ho : o.Lawful) (ops : List Op) (n : Str) (r : LockRec)
    (h : o.get (run o c ops).locks n = some r) : (r.keys.length : Int) ≤ r.size :=
  C01.capacity ho ops n r h

theorem restored_has_default_lease (ho : o.Lawful) (s : St M) (n k : Str)
    (hh : held o (restart o c s).1 n k) :
    ∃ tm, AMap.get (restart o c s).1.timers (tkey n k) = some tm ∧ tm.deadline = s.now + c.dlt := by
  obtain ⟨r, hg, hk⟩ := hh
  exact restart_keysLeased o c ho s n r hg k hk

theorem only_default_leases (s : St M) :
    ∀ e ∈ (restart o c s).1.timers, e.2.deadline = s.now + c.dlt ∧ e.1 = tkey e.2.name e.2.key :=
  (restart_timersDefault o c s).2

/-- a restored hold that nobody touches is still in the table at every instant before
restart time + default lock timeout … -/
theorem restored_not_early (ho : o.Lawful) (hinj : KeysInjective c)
    (s : St M) (h : InvS o c s) (n k : Str) (hh : held o (restart o c s).1 n k)
    (dt : Nat) (hd : dt < c.dlt) :
    ∃ tm, tm.deadline = s.now + c.dlt ∧
      held o (step o c (restart o c s).1 (.advance dt)).1 tm.name tm.key ∧
      AMap.get (step o c (restart o c s).1 (.advance dt)).1.timers (tkey n k) = some tm := by
  obtain ⟨tm, hg, hdl⟩ := restored_has_default_lease o c ho s n k hh
  have hnow := restart_now o c s
  have hd' : (restart o c s).1.now + dt < tm.deadline := by rw [hnow, hdl]; omega
  exact ⟨tm, hdl, C04.lease_not_early_held ho hinj (restart_invS ho h) dt _ tm hg hd',
    C04.lease_not_early ho hinj (restart_invS ho h).1 dt _ tm hg hd'⟩

/-- … and no lease of a restored hold survives the instant restart time + default lock timeout -/
theorem restored_expires_exactly (s : St M) (dt : Nat) (hd : c.dlt ≤ dt)
    (hnt : (step o c (restart o c s).1 (.advance dt)).2.tie = false) :
    ∀ e ∈ (step o c (restart o c s).1 (.advance dt)).1.timers,
      ¬ (e.2.deadline = s.now + c.dlt) := by
  intro e he hdl
  have := C04.lease_prompt (restart o c s).1 dt hnt e he
  rw [restart_now, hdl] at this
  omega

theorem restored_unlock_any_session (s : St M) (sid sid' : Option Sid) (n k : Str) :
    step o c s (.unlock sid n k) = step o c s (.unlock sid' n k) :=
  C18.unlock_ignores_session o c s sid sid' n k

/-- Renew with the original key on a restored hold succeeds, whoever calls -/
theorem restored_renew_succeeds (ho : o.Lawful) (s : St M) (n k : Str) (t : Int) (ht : 0 < t)
    (hh : held o (restart o c s).1 n k) : (step o c (restart o c s).1 (.renew n k t)).2.ok = true := by
  obtain ⟨tm, hg, _⟩ := restored_has_default_lease o c ho s n k hh
  have : ¬ t ≤ 0 := by omega
  simp [step, srvRenew, this, hg]

/-- Unlock with the original key on a restored hold succeeds, whoever calls -/
theorem restored_unlock_succeeds (s : St M) (sid : Option Sid) (n k : Str)
    (hh : held o (restart o c s).1 n k) : (step o c (restart o c s).1 (.unlock sid n k)).2.ok = true := by
  obtain ⟨r, hg, hk⟩ := hh
  simp [step, srvUnlock, mgrUnlock, hg, hk]

theorem restored_only_from_file (ho : o.Lawful) (s : St M) (n k : Str)
    (hh : held o (restart o c s).1 n k) :
    c.hasFile = true ∧ ∃ e ∈ s.file, ∃ x ∈ e.2, x.name = n ∧ x.key = k := by
  obtain ⟨r, hg, hk⟩ := hh
  obtain ⟨e, he, x, hx, h1, h2⟩ := restart_keysFromFile o c ho s n r hg k hk
  by_cases hf : c.hasFile = true
  · simp [hf] at he
    exact ⟨hf, e, he, x, hx, h1, h2⟩
  · simp [hf] at he

/-- a hold that is not in the table before a restart is not in the table after it -/
theorem ended_stays_ended (ho : o.Lawful) (s : St M) (h : InvS o c s) (n k : Str)
    (hnh : ¬ held o s n k) : ¬ held o (restart o c s).1 n k := by
  intro hh
  obtain ⟨hf, e, he, x, hx, h1, h2⟩ := restored_only_from_file o c ho s n k hh
  apply hnh
  have hget : AMap.get s.file e.1 = some e.2 := AMap.uniq_get_of_mem _ _ _ h.2.2 he
  have hb : booked s e.1 x := by
    rcases h.1.fs e.1 with hfs | hfs
    · exact ⟨e.2, by rw [← hfs]; exact hget, hx⟩
    · rw [hfs.1] at hget; cases hget
  rcases h.1.bh e.1 x hb with ⟨r, hg, hk, _⟩ | hx
  · exact ⟨r, by rw [← h1]; exact hg, by rw [← h2]; exact hk⟩
  · cases hx

/-- **unconditional form**: after ANY history (further restarts included) a hold that is not in the
table stays out of it across the next restart -/
theorem ended_stays_ended_reachable (ho : o.Lawful) (hinj : KeysInjective c) (ops : List Op) (n k : Str)
    (hnh : ¬ held o (run o c ops) n k) : ¬ held o (restart o c (run o c ops)).1 n k :=
  ended_stays_ended o c ho _ (run_invS ho hinj ops) n k hnh

/-- … and every restored hold is still there at every instant before restart time + default lock timeout -/
theorem restored_not_early_reachable (ho : o.Lawful) (hinj : KeysInjective c) (ops : List Op) (n k : Str)
    (hh : held o (restart o c (run o c ops)).1 n k) (dt : Nat) (hd : dt < c.dlt) :
    ∃ tm, tm.deadline = (run o c ops).now + c.dlt ∧
      held o (step o c (restart o c (run o c ops)).1 (.advance dt)).1 tm.name tm.key ∧
      AMap.get (step o c (restart o c (run o c ops)).1 (.advance dt)).1.timers (tkey n k) = some tm :=
  restored_not_early o c ho hinj _ (run_invS ho hinj ops) n k hh dt hd

/-- `restart` is total: it is a Lean function on every state and every file content -/
theorem startup_total (s : St M) : ∃ s' ev, restart o c s = (s', ev) := ⟨_, _, rfl⟩

theorem restore_loop_pinned :
    Ldlm.Facts.serverNewRestore = ["lockMgr.TryLock", "sessionMgr.RemoveLock", "lockTimerMgr.Add"] ∧
    Ldlm.Facts.serverNewRestoreTimeout = some "c.DefaultLockTimeout" := ⟨rfl, rfl⟩

/-! non-vacuity: a size-1 lock whose file lists one hold is restored, occupies the lock, expires at
exactly restart time + default lock timeout (600 s) and is not restored by a second restart -/
def cfg0 : Cfg := { gcInterval := 0, gcMinIdle := 0, dlt := 600 * sec, noClear := false, hasFile := true,
                    genKey := fun n => 75 :: natDigits n }
def s1 : Str := [115, 49]
def s2 : Str := [115, 50]
def st1 : St (List (Str × LockRec)) := run flatOps cfg0 [.connect s1, .tryLock (some s1) [97] none none, .restart]

example : (AMap.get st1.locks [97]).map (·.keys) = some [[75, 48]] := by decide
example : (step flatOps cfg0 st1 (.tryLock (some s2) [97] none none)).2.ok = false := by decide
example : (step flatOps cfg0 st1 (.unlock (some s2) [97] [75, 48])).2.ok = true := by decide
example : (step flatOps cfg0 st1 (.renew [97] [75, 48] 5)).2.ok = true := by decide
example : (step flatOps cfg0 st1 (.advance (600 * sec - 1))).1.timers.length = 1 := by decide
example : ((AMap.get (step flatOps cfg0 st1 (.advance (600 * sec))).1.locks [97]).map (·.keys) = some []) ∧
    (step flatOps cfg0 (step flatOps cfg0 st1 (.advance (600 * sec))).1 .restart).1.locks = [] := by decide

end Ldlm.Props.C10
