import Ldlm.Proofs.CoreInv
/-! The macro blocks of M2 preserve the invariant (all operations except `restart`, which is in
`CoreRestart.lean`). -/
namespace Ldlm.Core
variable {M : Type} {o : MapOps M} {c : Cfg}

/-- uuid freshness: distinct requests get distinct keys -/
def KeysInjective (c : Cfg) : Prop := ∀ i j, c.genKey i = c.genKey j → i = j

abbrev Inv' (o : MapOps M) (c : Cfg) (s : St M) : Prop := InvX o c none none [] s

/-! ### record-level facts -/

theorem fresh_not_mem (hinj : KeysInjective c) {n : Nat} {r : LockRec} (h : RecOk c n r) :
    c.genKey n ∉ allKeys r := by
  intro hm
  obtain ⟨i, hi, e⟩ := h.fresh _ hm
  have := hinj _ _ e
  omega

theorem nodup_middle {α} {a : α} {l₁ l₂ : List α} :
    (l₁ ++ a :: l₂).Nodup ↔ a ∉ l₁ ++ l₂ ∧ (l₁ ++ l₂).Nodup := by
  rw [List.perm_middle.nodup_iff, List.nodup_cons]

theorem allKeys_addKey (r : LockRec) (g : Str) :
    allKeys { r with keys := r.keys ++ [g] } = r.keys ++ g :: r.q.map (·.key) := by
  simp [allKeys]

theorem allKeys_enqueue (r : LockRec) (p : Pending) :
    allKeys { r with q := r.q ++ [p] } = allKeys r ++ p.key :: [] := by
  simp [allKeys]

theorem RecOk.addKey (hinj : KeysInjective c) {n : Nat} {r : LockRec} (h : RecOk c n r) :
    RecOk c (n+1) { r with keys := r.keys ++ [c.genKey n] } := by
  have hnm := fresh_not_mem hinj h
  refine ⟨?_, ?_⟩
  · rw [allKeys_addKey, nodup_middle]
    exact ⟨hnm, h.nodup⟩
  · intro k hk
    rw [allKeys_addKey] at hk
    rcases List.mem_append.mp hk with hk | hk
    · obtain ⟨i, hi, e⟩ := h.fresh k (List.mem_append_left _ hk); exact ⟨i, by omega, e⟩
    · rcases List.mem_cons.mp hk with hk | hk
      · exact ⟨n, by omega, hk⟩
      · obtain ⟨i, hi, e⟩ := h.fresh k (List.mem_append_right _ hk); exact ⟨i, by omega, e⟩

theorem RecOk.enqueue (hinj : KeysInjective c) {n : Nat} {r : LockRec} (h : RecOk c n r) (p : Pending)
    (hp : p.key = c.genKey n) : RecOk c (n+1) { r with q := r.q ++ [p] } := by
  have hnm := fresh_not_mem hinj h
  refine ⟨?_, ?_⟩
  · rw [allKeys_enqueue, nodup_middle]
    exact ⟨by simpa [hp] using hnm, by simpa using h.nodup⟩
  · intro k hk
    rw [allKeys_enqueue] at hk
    rcases List.mem_append.mp hk with hk | hk
    · obtain ⟨i, hi, e⟩ := h.fresh k hk; exact ⟨i, by omega, e⟩
    · simp at hk; exact ⟨n, by omega, by rw [hk, hp]⟩

theorem RecOk.sub {n : Nat} {r r' : LockRec} (h : RecOk c n r) (hs : (allKeys r').Sublist (allKeys r)) :
    RecOk c n r' :=
  ⟨h.nodup.sublist hs, fun k hk => h.fresh k (hs.subset hk)⟩

theorem RecOk.la {n : Nat} {r : LockRec} (h : RecOk c n r) (t : Nat) : RecOk c n { r with lastAccessed := t } :=
  ⟨h.nodup, h.fresh⟩

/-! ### more primitive lemmas -/

theorem InvX.shrink_xh {xb xt xh xh'} {s : St M} (h : InvX o c xb xt xh s)
    (hsub : ∀ p ∈ xh', p ∈ xh) (hgone : ∀ p ∈ xh, p ∉ xh' → ¬ held o s p.1 p.2) :
    InvX o c xb xt xh' s := by
  refine ⟨h.tu, h.recs, h.qsize, h.timer, h.bh, h.u1, h.u2, ?_, ?_, ?_, h.fs⟩
  · intro hnc n r k hg hk
    rcases h.hb hnc n r k hg hk with hb' | hx
    · exact Or.inl hb'
    · by_cases hm : (n, k) ∈ xh'
      · exact Or.inr hm
      · exact absurd ⟨r, hg, hk⟩ (hgone (n, k) hx hm)
  · intro p hp; exact h.xhfree p (hsub p hp)
  · intro p hp; exact h.xhheld p (hsub p hp)

theorem booked_delSession (s : St M) (sid sid' : Sid) (x : Hold) :
    booked (save { s with sessions := AMap.del s.sessions sid }) sid' x ↔ (sid ≠ sid' ∧ booked s sid' x) := by
  unfold booked save
  simp only
  rw [AMap.get_del]
  by_cases e : sid = sid' <;> simp [e]

/-- `sessionManager.DestroySession(sid)` + `Save`: the session's holds are now held but unbooked -/
theorem InvX.delSession {s : St M} (h : Inv' o c s) {sid : Sid} {hs : List Hold}
    (hg : AMap.get s.sessions sid = some hs) :
    InvX o c none none (hs.map pairOf) (save { s with sessions := AMap.del s.sessions sid }) := by
  have hbk := booked_delSession s sid
  refine ⟨h.tu, h.recs, h.qsize, h.timer, ?_, ?_, ?_, ?_, ?_, ?_, ?_⟩
  · intro sid' x hb'; rw [hbk] at hb'; exact h.bh sid' x hb'.2
  · intro a b x y h1 h2; rw [hbk] at h1 h2; exact h.u1 a b x y h1.2 h2.2
  · intro sid' hs' hg'
    simp only [save, AMap.get_del] at hg'
    by_cases e : sid = sid'
    · simp [e] at hg'
    · simp [e] at hg'; exact h.u2 sid' hs' hg'
  · intro hnc n r k hgl hk
    rcases h.hb hnc n r k hgl hk with ⟨sid', hb'⟩ | hx
    · by_cases e : sid = sid'
      · right
        obtain ⟨l, hl, hm⟩ := hb'
        rw [← e, hg] at hl; cases hl
        exact List.mem_map.mpr ⟨_, hm, rfl⟩
      · left; exact ⟨sid', (hbk sid' _).mpr ⟨e, hb'⟩⟩
    · cases hx
  · intro p hp sid' x hb' hpe
    rw [hbk] at hb'
    obtain ⟨y, hy, hyp⟩ := List.mem_map.mp hp
    exact hb'.1 (h.u1 sid sid' y x ⟨hs, hg, hy⟩ hb'.2 (by rw [hyp, hpe]))
  · intro p hp
    obtain ⟨y, hy, hyp⟩ := List.mem_map.mp hp
    rcases h.bh sid y ⟨hs, hg, hy⟩ with ⟨r, hgl, hk, _⟩ | hx
    · rw [← hyp]; exact ⟨r, hgl, hk⟩
    · cases hx
  · intro sid'; left; rfl

theorem InvX.connect {xb xt xh} {s : St M} (h : InvX o c xb xt xh s) (sid : Sid)
    (hg : AMap.get s.sessions sid = none) :
    InvX o c xb xt xh { s with sessions := AMap.set s.sessions sid [] } := by
  have hbk : ∀ sid' x, booked { s with sessions := AMap.set s.sessions sid [] } sid' x ↔ booked s sid' x := by
    intro sid' x
    unfold booked
    simp only [AMap.get_set]
    by_cases e : sid = sid'
    · subst e; simp [hg]
    · simp [e]
  refine ⟨h.tu, h.recs, h.qsize, h.timer, ?_, ?_, ?_, ?_, ?_, h.xhheld, ?_⟩
  · intro sid' x hb'; rw [hbk] at hb'; exact h.bh sid' x hb'
  · intro a b x y h1 h2; rw [hbk] at h1 h2; exact h.u1 a b x y h1 h2
  · intro sid' hs' hg'
    simp only [AMap.get_set] at hg'
    by_cases e : sid = sid'
    · simp [e] at hg'; rw [hg']; simp
    · simp [e] at hg'; exact h.u2 sid' hs' hg'
  · intro hnc n r k hgl hk; simp only [hbk]; exact h.hb hnc n r k hgl hk
  · intro p hp sid' x hb'; rw [hbk] at hb'; exact h.xhfree p hp sid' x hb'
  · intro sid'
    simp only [AMap.get_set]
    by_cases e : sid = sid'
    · subst e
      rcases h.fs sid with hf | hf
      · right; simp [hf, hg]
      · rw [hg] at hf; cases hf.2
    · simp only [e, if_false]; exact h.fs sid'

theorem InvX.gc (ho : o.Lawful) {xb xt xh} {s : St M} (h : InvX o c xb xt xh s) (mi g : Nat) :
    InvX o c xb xt xh { gcPass o s mi with gcNext := g } := by
  have hget : ∀ n r, o.get (gcPass o s mi).locks n = some r → o.get s.locks n = some r := by
    intro n r hg
    simp only [gcPass, ho.get_filter] at hg
    cases hx : o.get s.locks n with
    | none => simp [hx] at hg
    | some r0 =>
      simp only [hx, Option.filter] at hg
      split at hg
      · exact hg
      · cases hg
  have hkeep : ∀ n r k, o.get s.locks n = some r → k ∈ r.keys → o.get (gcPass o s mi).locks n = some r := by
    intro n r k hg hk
    simp only [gcPass, ho.get_filter, hg, Option.filter]
    have : r.keys ≠ [] := by intro e; rw [e] at hk; cases hk
    simp [this]
  have hheld' : ∀ n k, held o { gcPass o s mi with gcNext := g } n k ↔ held o s n k := by
    intro n k
    constructor
    · rintro ⟨r, hg, hk⟩; exact ⟨r, hget n r hg, hk⟩
    · rintro ⟨r, hg, hk⟩; exact ⟨r, hkeep n r k hg hk, hk⟩
  refine ⟨h.tu, ?_, ?_, ?_, ?_, h.u1, h.u2, ?_, h.xhfree, ?_, h.fs⟩
  · intro n r hg; exact h.recs n r (hget n r hg)
  · intro n r hg; exact h.qsize n r (hget n r hg)
  · intro tk tm hm; rw [hheld']; exact h.timer tk tm hm
  · intro sid x hb'
    rcases h.bh sid x hb' with ⟨r, hg, hk, hsz⟩ | hx
    · exact Or.inl ⟨r, hkeep _ r _ hg hk, hk, hsz⟩
    · exact Or.inr hx
  · intro hnc n r k hg hk; exact h.hb hnc n r k (hget n r hg) hk
  · intro p hp; rw [hheld']; exact h.xhheld p hp

end Ldlm.Core

namespace Ldlm.Core
variable {M : Type} {o : MapOps M} {c : Cfg}

/-! ### `mgrUnlock` -/

theorem book_fields (a : St M) (sid : Sid) (n k : Str) (sz : Int) (lt : Option Int) :
    (book a sid n k sz lt).timers = (arm (addBook a sid ⟨n, k, sz⟩) n k sid lt).timers ∧
    (book a sid n k sz lt).file = (book a sid n k sz lt).sessions := ⟨rfl, file_book a sid n k sz lt⟩

/-- `book` on two states that differ only in the representation of the lock table -/
theorem book_equiv (ho : o.Lawful) (a b : St M) (hl : ∀ n, o.get b.locks n = o.get a.locks n)
    (ht : b.timers = a.timers) (hs : b.sessions = a.sessions) (hn : b.nreq = a.nreq) (hnow : b.now = a.now)
    (sid : Sid) (n k : Str) (sz : Int) (lt : Option Int) :
    Equiv o (book a sid n k sz lt) (book b sid n k sz lt) := by
  refine ⟨?_, ?_, ?_, ?_, ?_⟩
  · intro n'; rw [book_locks, book_locks]; exact hl n'
  · unfold book arm addBook save
    cases lt with
    | none => simp [ht]
    | some t => by_cases h : t > 0 <;> simp [h, ht, hnow]
  · rw [sessions_book, sessions_book, hs]
  · rw [file_book, file_book, sessions_book, sessions_book, hs]
  · rw [nreq_book, nreq_book, hn]

theorem mgrUnlock_invx (ho : o.Lawful) {xb' xt' xh} {s : St M} (h : InvX o c none none xh s) (n k : Str)
    (hxb : xb' = some (n, k) ∨ (xb' = none ∧ (n, k) ∈ xh))
    (hxt : xt' = some (n, k) ∨ ∀ tk tm, (tk, tm) ∈ s.timers → (tm.name, tm.key) ≠ (n, k)) :
    ((mgrUnlock o s n k).2.1 = true →
        InvX o c xb' xt' (xh.filter (· ≠ (n, k))) (mgrUnlock o s n k).1 ∧ ¬ held o (mgrUnlock o s n k).1 n k) ∧
    ((mgrUnlock o s n k).2.1 = false →
        InvX o c none none xh (mgrUnlock o s n k).1 ∧ ¬ held o (mgrUnlock o s n k).1 n k) := by
  unfold mgrUnlock
  split
  · rename_i hg
    refine ⟨fun e => (by cases e), fun _ => ⟨h, ?_⟩⟩
    rintro ⟨r, hg', _⟩; rw [hg] at hg'; cases hg'
  · rename_i r0 hg0
    simp only
    split
    · rename_i hk
      have hk0 : k ∈ r0.keys := hk
      refine ⟨fun _ => ?_, fun e => (by cases e)⟩
      have hxb0 : xb' = some (n, k) ∨ (n, k) ∈ xh := hxb.elim Or.inl (fun x => Or.inr x.2)
      -- the state with the key removed
      let r1 : LockRec := { r0 with lastAccessed := s.now, keys := r0.keys.erase k }
      have hu := InvX.unkey ho (xb' := xb') (xt' := xt') (s1 := { s with locks := o.set s.locks n r1 })
        h hg0 hk0 rfl rfl rfl rfl rfl rfl rfl rfl hxb0 hxt
      unfold handOver
      split
      · -- nobody queued
        exact hu
      · -- the unit goes to the head of the queue
        rename_i p q' hq
        have hq0 : r0.q = p :: q' := hq
        let r2 : LockRec := { r1 with q := q', keys := r1.keys ++ [p.key] }
        let sU : St M := { s with locks := o.set s.locks n r1 }
        let s1' : St M := { sU with locks := o.set sU.locks n r2,
                                    pending := s.pending.filter (fun p' => p'.req ≠ p.req) }
        have hr0 := h.recs n r0 hg0
        have hpq : p.key ∈ r0.q.map (·.key) := by rw [hq0]; simp
        have hpk : p.key ∉ r0.keys := by
          intro hm
          have := hr0.nodup; unfold allKeys at this
          exact (List.nodup_append.mp this).2.2 _ hm _ hpq rfl
        have hne : p.key ≠ k := fun e => hpk (e ▸ hk0)
        have hok2 : RecOk c s1'.nreq r2 := by
          apply hr0.sub
          show (allKeys r2).Sublist (allKeys r0)
          unfold allKeys
          show ((r0.keys.erase k ++ [p.key]) ++ q'.map (·.key)).Sublist (r0.keys ++ r0.q.map (·.key))
          rw [hq0, List.append_assoc]
          exact List.Sublist.append List.erase_sublist (by simp)
        have hg := InvX.grant ho (s := sU) (s1 := s1') hu.1 (n := n) (k := p.key) (r' := r2) (rk := r1.keys)
          rfl rfl rfl rfl (Nat.le_refl _) rfl
          (fun k' => by
            rw [held_set ho (s := s) (s1 := sU) (r' := r1) rfl]; simp)
          (fun r hgr => by
            have : o.get sU.locks n = some r1 := by show o.get (o.set s.locks n r1) n = _; rw [ho.get_set]; simp
            rw [this] at hgr; cases hgr; rfl)
          hok2
          (fun p' hp' => by
            show p'.size = r0.size
            exact h.qsize n r0 hg0 p' (by rw [hq0]; exact List.mem_cons_of_mem _ hp'))
          (by
            rcases hxb with e | ⟨e, _⟩
            · rw [e]; intro hc; exact hne (congrArg Prod.snd (Option.some.inj hc)).symm
            · rw [e]; intro hc; cases hc)
          (by
            intro hm
            have hm' := (mem_filter_ne.mp hm).1
            obtain ⟨r, hgr, hkr⟩ := h.xhheld _ hm'
            rw [hg0] at hgr; cases hgr
            exact hpk hkr)
          p.sid p.lt
        have hps : p.size = r0.size := h.qsize n r0 hg0 p (by rw [hq0]; simp)
        simp only [hps]
        refine ⟨?_, ?_⟩
        · refine hg.congr (book_equiv ho s1' { s with
              locks := o.set s.locks n { r1 with q := q', keys := r1.keys ++ [p.key] },
              pending := s.pending.filter (fun p' => p'.req ≠ p.req) } ?_ rfl rfl rfl rfl p.sid n p.key r0.size p.lt)
          intro n'
          show o.get (o.set s.locks n _) n' = o.get (o.set (o.set s.locks n r1) n r2) n'
          rw [ho.get_set, ho.get_set, ho.get_set]
          by_cases e : n = n'
          · simp only [e, if_true]; rfl
          · simp [e]
        · rintro ⟨r, hgr, hkr⟩
          rw [book_locks] at hgr
          simp only at hgr
          rw [ho.get_set] at hgr
          simp at hgr
          rw [← hgr] at hkr
          simp at hkr
          rcases hkr with hkr | hkr
          · have hnd : r0.keys.Nodup := by
              have := hr0.nodup; unfold allKeys at this; exact (List.nodup_append.mp this).1
            exact (hnd.mem_erase_iff.mp hkr).1 rfl
          · exact hne hkr.symm
    · rename_i hk
      have hk0 : k ∉ r0.keys := hk
      refine ⟨fun e => (by cases e), fun _ => ?_⟩
      have := InvX.setSame ho (s1 := { s with locks := o.set s.locks n { r0 with lastAccessed := s.now } })
        h (n := n) (r' := { r0 with lastAccessed := s.now }) rfl rfl rfl rfl (Nat.le_refl _)
        (fun k' => by
          constructor
          · rintro ⟨r, hgr, hkr⟩; rw [hg0] at hgr; cases hgr; exact hkr
          · intro hkr; exact ⟨r0, hg0, hkr⟩)
        (fun r hgr => by rw [hg0] at hgr; cases hgr; rfl)
        ((h.recs n r0 hg0).la _) (h.qsize n r0 hg0)
      refine ⟨this, ?_⟩
      rintro ⟨r, hgr, hkr⟩
      simp only [ho.get_set] at hgr
      simp at hgr
      rw [← hgr] at hkr
      exact hk0 hkr

end Ldlm.Core

namespace Ldlm.Core
variable {M : Type} {o : MapOps M} {c : Cfg}

/-! ### the blocks -/

theorem getLockCreate_cases {s : St M} {n : Str} {sz : Int} {r : LockRec}
    (hg : getLockCreate o s n sz = .ok r) :
    (∃ r0, o.get s.locks n = some r0 ∧ r = { r0 with lastAccessed := s.now } ∧ sz = r0.size) ∨
    (o.get s.locks n = none ∧ r = { size := sz, keys := [], q := [], lastAccessed := s.now }) := by
  unfold getLockCreate at hg
  split at hg
  · cases hg
  · split at hg
    · rename_i r0 hr0
      split at hg
      · cases hg
      · rename_i hsz
        cases hg
        exact Or.inl ⟨r0, hr0, rfl, by simpa using hsz⟩
    · rename_i hn
      cases hg; exact Or.inr ⟨hn, rfl⟩

/-- facts about the record `getLockCreate` returns, in the state with the request counter bumped -/
theorem getLockCreate_facts {s : St M} (h : Inv' o c s) {n : Str} {sz : Int} {r : LockRec} {m : Nat}
    (hm : s.nreq ≤ m) {s0 : St M} (hl0 : s0.locks = s.locks)
    (hg : getLockCreate o s0 n sz = .ok r) :
    (∀ k', held o s n k' ↔ k' ∈ r.keys) ∧ (∀ r0, o.get s.locks n = some r0 → r0.size = r.size) ∧
    RecOk c m r ∧ (∀ p ∈ r.q, p.size = r.size) ∧ r.size = sz := by
  rcases getLockCreate_cases hg with ⟨r0, hg0, er, esz⟩ | ⟨hg0, er⟩
  · rw [hl0] at hg0
    subst er
    refine ⟨?_, ?_, ((h.recs n r0 hg0).la _).mono hm, h.qsize n r0 hg0, esz.symm⟩
    · intro k'
      constructor
      · rintro ⟨r, hgr, hkr⟩; rw [hg0] at hgr; cases hgr; exact hkr
      · intro hkr; exact ⟨r0, hg0, hkr⟩
    · intro r hgr; rw [hg0] at hgr; cases hgr; rfl
  · rw [hl0] at hg0
    subst er
    refine ⟨?_, ?_, ⟨by simp [allKeys], fun k hk => (by simp [allKeys] at hk)⟩, fun p hp => (by cases hp), rfl⟩
    · intro k'
      constructor
      · rintro ⟨r, hgr, _⟩; rw [hg0] at hgr; cases hgr
      · intro hkr; cases hkr
    · intro r hgr; rw [hg0] at hgr; cases hgr

theorem block_tryLock (ho : o.Lawful) (hinj : KeysInjective c) (s : St M) (sid : Option Sid) (n : Str)
    (sz lt : Option Int) (h : Inv' o c s) : Inv' o c (srvTryLock o c s sid n sz lt).1 := by
  have h0 : Inv' o c { s with nreq := s.nreq + 1 } := h.frame rfl rfl rfl rfl (Nat.le_succ _)
  unfold srvTryLock
  simp only
  split
  · exact h0
  · split
    · exact h0
    · split
      · exact h0
      · split
        · exact h0
        · rename_i sid' _ _ _ r hg
          obtain ⟨f1, f2, f3, f4, f5⟩ := getLockCreate_facts h (m := s.nreq) (Nat.le_refl _)
            (s0 := { s with nreq := s.nreq + 1 }) rfl hg
          split
          · let r' : LockRec := { r with keys := r.keys ++ [c.genKey s.nreq] }
            let s1 : St M := { s with nreq := s.nreq + 1, locks := o.set s.locks n r' }
            have := InvX.grant ho h (s1 := s1) (n := n) (k := c.genKey s.nreq) (r' := r') (rk := r.keys)
              rfl rfl rfl rfl (Nat.le_succ _) rfl f1 f2 (f3.addKey hinj) f4
              (by intro hc; cases hc) (by intro hc; cases hc) sid' lt
            rw [← f5]; exact this
          · exact InvX.setSame ho h (n := n) (r' := r) rfl rfl rfl rfl (Nat.le_succ _) f1 f2
              (f3.mono (Nat.le_succ _)) f4

theorem block_lock (ho : o.Lawful) (hinj : KeysInjective c) (s : St M) (sid : Option Sid) (n : Str)
    (sz lt wt : Option Int) (h : Inv' o c s) : Inv' o c (srvLock o c s sid n sz lt wt).1 := by
  have h0 : Inv' o c { s with nreq := s.nreq + 1 } := h.frame rfl rfl rfl rfl (Nat.le_succ _)
  unfold srvLock
  simp only
  split
  · exact h0
  · split
    · exact h0
    · split
      · exact h0
      · split
        · exact h0
        · split
          · exact h0
          · rename_i sid' _ _ _ _ r hg
            obtain ⟨f1, f2, f3, f4, f5⟩ := getLockCreate_facts h (m := s.nreq) (Nat.le_refl _)
              (s0 := { s with nreq := s.nreq + 1 }) rfl hg
            split
            · let r' : LockRec := { r with keys := r.keys ++ [c.genKey s.nreq] }
              let s1 : St M := { s with nreq := s.nreq + 1, locks := o.set s.locks n r' }
              have := InvX.grant ho h (s1 := s1) (n := n) (k := c.genKey s.nreq) (r' := r') (rk := r.keys)
                rfl rfl rfl rfl (Nat.le_succ _) rfl f1 f2 (f3.addKey hinj) f4
                (by intro hc; cases hc) (by intro hc; cases hc) sid' lt
              rw [← f5]; exact this
            · refine InvX.setSame ho h (n := n) rfl rfl rfl rfl (Nat.le_succ _) f1 f2
                (f3.enqueue hinj _ rfl) ?_
              intro p hp
              simp only [List.mem_append, List.mem_singleton] at hp
              rcases hp with hp | hp
              · exact f4 p hp
              · rw [hp]; exact f5.symm

theorem block_unlock (ho : o.Lawful) (s : St M) (n k : Str) (h : Inv' o c s) :
    Inv' o c (srvUnlock o s n k).1 := by
  unfold srvUnlock
  simp only
  have h0 : Inv' o c { s with timers := AMap.del s.timers (tkey n k) } :=
    h.delTimer (tkey n k) (fun p hp => by cases hp)
  have hnt : ∀ tk tm, (tk, tm) ∈ AMap.del s.timers (tkey n k) → (tm.name, tm.key) ≠ (n, k) := by
    intro tk tm hm hp
    obtain ⟨hm', hne⟩ := mem_del hm
    have := (h.timer tk tm hm').1
    apply hne; simp only; rw [this]
    have e1 : tm.name = n := congrArg Prod.fst hp
    have e2 : tm.key = k := congrArg Prod.snd hp
    rw [e1, e2]
  obtain ⟨m1, m2⟩ := mgrUnlock_invx ho (xb' := some (n, k)) (xt' := none) h0 n k (Or.inl rfl) (Or.inr hnt)
  cases hok : (mgrUnlock o { s with timers := AMap.del s.timers (tkey n k) } n k).2.1 with
  | true =>
    simp only [if_true]
    obtain ⟨i1, i2⟩ := m1 hok
    exact InvX.removeBook i1 (fun p hp => (Option.some.inj hp).symm) i2
  | false =>
    simp only [Bool.false_eq_true, if_false]
    exact (m2 hok).1

theorem block_fire (ho : o.Lawful) (s : St M) (tk : Str) (tm : Timer) (hm : (tk, tm) ∈ s.timers)
    (h : Inv' o c s) : Inv' o c (fireLease o s tk tm).1 := by
  unfold fireLease
  simp only
  have etk := (h.timer tk tm hm).1
  obtain ⟨m1, m2⟩ := mgrUnlock_invx ho (xb' := some (tm.name, tm.key)) (xt' := some (tm.name, tm.key))
    h tm.name tm.key (Or.inl rfl) (Or.inl rfl)
  cases hok : (mgrUnlock o s tm.name tm.key).2.1 with
  | true =>
    obtain ⟨i1, i2⟩ := m1 hok
    have i3 := InvX.removeBook i1 (fun p hp => (Option.some.inj hp).symm) i2
    exact i3.delTimer tk (fun p hp => by rw [← Option.some.inj hp, etk])
  | false =>
    obtain ⟨i1, i2⟩ := m2 hok
    have i3 := InvX.removeBook i1 (fun p hp => by cases hp) i2
    exact i3.delTimer tk (fun p hp => by cases hp)

theorem block_abandon (ho : o.Lawful) (s : St M) (p : Pending) (e : Err) (h : Inv' o c s) :
    Inv' o c (abandon o s p e).1 := by
  unfold abandon
  simp only
  split
  · rename_i r hg
    refine InvX.setSame ho h (n := p.name) (r' := { r with q := r.q.filter (fun p' => p'.req ≠ p.req) })
      rfl rfl rfl rfl (Nat.le_refl _) ?_ ?_ ?_ ?_
    · intro k'
      constructor
      · rintro ⟨r1, hgr, hkr⟩; rw [hg] at hgr; cases hgr; exact hkr
      · intro hkr; exact ⟨r, hg, hkr⟩
    · intro r1 hgr; rw [hg] at hgr; cases hgr; rfl
    · apply (h.recs p.name r hg).sub
      unfold allKeys
      exact List.Sublist.append (List.Sublist.refl _) (List.filter_sublist.map _)
    · intro p' hp'; exact h.qsize p.name r hg p' (List.mem_filter.mp hp').1
  · exact h.frame rfl rfl rfl rfl (Nat.le_refl _)

theorem block_renew (s : St M) (n k : Str) (t : Int) (h : Inv' o c s) : Inv' o c (srvRenew s n k t).1 := by
  unfold srvRenew
  split
  · exact h
  · split
    · exact h
    · rename_i tm hg
      have hm := AMap.get_some_mem _ _ _ hg
      obtain ⟨e, hh⟩ := h.timer _ _ hm
      refine ⟨AMap.uniq_set _ _ _ h.tu, h.recs, h.qsize, ?_, h.bh, h.u1, h.u2, h.hb, h.xhfree, h.xhheld, h.fs⟩
      intro tk' tm' hm'
      rcases mem_set hm' with hx | hx
      · cases hx; exact ⟨e, hh⟩
      · exact h.timer tk' tm' hx

theorem clearHolds_invx (ho : o.Lawful) : ∀ (hs : List Hold) {s : St M} (ev : List Event),
    (hs.map pairOf).Nodup → InvX o c none none (hs.map pairOf) s →
    Inv' o c (hs.foldl (fun (acc : St M × List Event) h =>
      let (s', ok, _, ev) := mgrUnlock o acc.1 h.name h.key
      let s' := if ok then { s' with timers := AMap.del s'.timers (tkey h.name h.key) } else s'
      (s', acc.2 ++ ev)) (s, ev)).1 := by
  intro hs
  induction hs with
  | nil => intro s ev _ h; exact h
  | cons x hs ih =>
    intro s ev hnd h
    simp only [List.foldl_cons]
    rw [List.map_cons, List.nodup_cons] at hnd
    apply ih _ hnd.2
    obtain ⟨m1, m2⟩ := mgrUnlock_invx ho (xb' := none) (xt' := some (x.name, x.key)) h x.name x.key
      (Or.inr ⟨rfl, by simp [pairOf]⟩) (Or.inl rfl)
    have hsub : ∀ p ∈ hs.map pairOf, p ∈ ((x :: hs).map pairOf).filter (· ≠ (x.name, x.key)) := by
      intro p hp
      refine mem_filter_ne.mpr ⟨by simp at hp ⊢; exact Or.inr hp, ?_⟩
      intro e; apply hnd.1; rw [e] at hp; exact hp
    cases hok : (mgrUnlock o s x.name x.key).2.1 with
    | true =>
      obtain ⟨i1, i2⟩ := m1 hok
      simp only [if_true]
      have i3 := i1.delTimer (tkey x.name x.key) (fun p hp => by rw [← Option.some.inj hp])
      refine i3.shrink_xh hsub ?_
      intro p hp hnp
      exfalso; exact hnp (by
        obtain ⟨hp1, hp2⟩ := mem_filter_ne.mp hp
        simp [pairOf] at hp1
        rcases hp1 with hp1 | hp1
        · exact absurd hp1 hp2
        · simpa [pairOf] using hp1)
    | false =>
      obtain ⟨i1, i2⟩ := m2 hok
      simp only [Bool.false_eq_true, if_false]
      refine i1.shrink_xh (fun p hp => by simp at hp ⊢; exact Or.inr hp) ?_
      intro p hp hnp
      simp [pairOf] at hp
      rcases hp with hp | hp
      · rw [hp]; exact i2
      · exfalso; apply hnp; simpa [pairOf] using hp

theorem block_destroy (ho : o.Lawful) (s : St M) (sid : Sid) (h : Inv' o c s) :
    Inv' o c (destroy o c s sid).1 := by
  unfold destroy
  split
  · exact h
  · rename_i hs hg
    simp only
    have hd := InvX.delSession h hg
    split
    · rename_i hc
      rcases hc with hc | hc
      · exact hd.drop_xh hc
      · rw [hc] at hd; exact hd
    · exact clearHolds_invx ho hs [] (h.u2 sid hs hg) hd

/-- all ten blocks preserve the invariant -/
theorem inv_blocks (ho : o.Lawful) (hinj : KeysInjective c) : Blocks (o := o) (c := c) (Inv' o c) where
  connect := by
    intro s sid h
    simp only [step]
    split
    · rename_i hg; exact h.connect sid hg
    · exact h
  abandon := fun s p e h => block_abandon ho s p e h
  destroy := fun s sid h => block_destroy ho s sid h
  tryLock := fun s sid n sz lt h => block_tryLock ho hinj s sid n sz lt h
  lock := fun s sid n sz lt wt h => block_lock ho hinj s sid n sz lt wt h
  unlock := fun s n k h => block_unlock ho s n k h
  renew := fun s n k t h => block_renew s n k t h
  tick := fun s t h => h.frame rfl rfl rfl rfl (Nat.le_refl _)
  fire := fun s tk tm hm h => block_fire ho s tk tm hm h
  gc := fun s mi g h => h.gc ho mi g

end Ldlm.Core
