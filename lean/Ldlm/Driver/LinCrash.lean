import Ldlm.Model.Crash
import Ldlm.Driver.Util
/-!
`driver lincrash`: validation of M7 (the state file under a kill at any instant) against the
instrumented server.  Input: what the server threads of a small concurrent program did to the lock
table, the bookkeeping and the state FILE, as events in the order they happened under a controlled
schedule (pairs = (lock name, key), numbered by first appearance):

    hist
    inv <id> <method> <pair>     lock.Grant | lock.Unlock | sess.AddLock | sess.RemoveLock (manager calls of the server)
    ret <id> <ok 0|1>
    inv <id> sess.DestroySession -
    ret <id> <ok> <pair,…|->      the holds `sessionManager.DestroySession` returned (the ended session's entry)
    trunc                        the file image became empty   (store.Write: Truncate(0))
    write                        the file image became non-empty (store.Write: Write + Sync)
    ack grant <pair>             the Lock / TryLock answer left the server
    ack release <pair>           the Unlock answer left the server
    end

A history is accepted when M7 (`Crash.step`) has a run in which the table / bookkeeping step of every
manager call lies between its `inv` and `ret`, the file operations are exactly the observed image
changes in order, a bookkeeping call returns only when its rewrite has finished, and every answer is
enabled when it leaves.  Output: `ok` or `reject <event>`.
-/
namespace Ldlm.Driver.CrashLin
open Ldlm.Crash

inductive Meth | grant | unlock | addLock | removeLock | destroy
deriving DecidableEq, Repr

structure Pend where
  id : Nat
  m : Meth
  p : Pair
  stepped : Bool      -- its model step has been taken
  ps : List Pair := []  -- destroy: the entry the model step removed (compared with the call's result at `ret`)
deriving DecidableEq, Repr

structure KCfg where
  st : St
  pend : List Pend
deriving DecidableEq, Repr

def actOf (m : Meth) (p : Pair) : Act :=
  match m with
  | .grant => .tableAdd p
  | .unlock => .tableDel p
  | .addLock => .bookAdd p
  | .removeLock => .bookDel p
  | .destroy => .destroy []

def sublists : List Pair → List (List Pair)
  | [] => [[]]
  | x :: xs => let r := sublists xs; r ++ r.map (x :: ·)

def sameSet (a b : List Pair) : Bool := a.all (· ∈ b) && b.all (· ∈ a)

/-- take the model step of one pending call -/
def expand (c : KCfg) : List KCfg :=
  -- a lease timer may fire at any time (the history does not say when)
  (c.st.held.filterMap fun p =>
    if p ∈ c.st.expiring then none else (step c.st (.expire p)).map fun s' => { c with st := s' }) ++
  (c.pend.filterMap fun q =>
    if q.stepped ∨ q.m = .destroy then none else
    (step c.st (actOf q.m q.p)).map fun s' =>
      { st := s', pend := c.pend.map fun r => if r.id = q.id then { r with stepped := true } else r }) ++
  -- a session end removes SOME set of recorded holds (the history names it only when the call returns)
  c.pend.flatMap fun q =>
    if q.stepped ∨ q.m ≠ .destroy then [] else
    (sublists c.st.book).filterMap fun ps =>
      (step c.st (.destroy ps)).map fun s' =>
        { st := s', pend := c.pend.map fun r => if r.id = q.id then { r with stepped := true, ps := ps } else r }

def addNew (acc : List KCfg) (cs : List KCfg) : List KCfg × List KCfg :=
  cs.foldl (fun (p : List KCfg × List KCfg) c => if p.1.contains c then p else (p.1 ++ [c], p.2 ++ [c])) (acc, [])

def closure : Nat → List KCfg → List KCfg → List KCfg
  | 0, acc, _ => acc
  | _, acc, [] => acc
  | fuel+1, acc, frontier =>
    let (acc', fresh) := addNew acc (frontier.flatMap expand)
    closure fuel acc' fresh

def parseMeth (s : String) : Option Meth :=
  if s = "lock.Grant" then some .grant else if s = "lock.Unlock" then some .unlock
  else if s = "sess.AddLock" then some .addLock else if s = "sess.RemoveLock" then some .removeLock
  else if s = "sess.DestroySession" then some .destroy else none

def pairOf (n : Nat) : Pair := (n, n)

def event (cfgs : List KCfg) (ws : List String) : Option (List KCfg) :=
  match ws with
  | ["inv", id, m, p] =>
    match id.toNat?, parseMeth m, (if p = "-" then some 0 else p.toNat?) with
    | some id, some m, some p => some (cfgs.map fun c => { c with pend := c.pend ++ [⟨id, m, pairOf p, false, []⟩] })
    | _, _, _ => none
  | ["ret", id, _, ps] =>
    -- the session end returns after its rewrite has finished; the entry it removed is the one it reports
    match id.toNat? with
    | none => none
    | some id =>
      let want := if ps = "-" then [] else (ps.splitOn ",").filterMap (·.toNat?) |>.map pairOf
      some ((closure 32 cfgs cfgs).filterMap fun c =>
        match c.pend.find? (·.id = id) with
        | none => none
        | some q =>
          if q.m = .destroy ∧ q.stepped ∧ ¬ c.st.unsaved ∧ sameSet q.ps want then some { c with pend := c.pend.filter (·.id ≠ id) } else none)
  | ["ret", id, ok] =>
    match id.toNat? with
    | none => none
    | some id =>
      let all := closure 32 cfgs cfgs
      some (all.filterMap fun c =>
        match c.pend.find? (·.id = id) with
        | none => none
        | some q =>
          let rest := c.pend.filter (·.id ≠ id)
          match q.m with
          | .grant | .unlock =>
            -- a table call that reports success has taken its step; one that reports failure has not
            if q.stepped = (ok == "1") then some { c with pend := rest } else none
          | .addLock | .removeLock | .destroy =>
            -- the bookkeeping call returns after its rewrite of the file has finished
            if q.stepped ∧ ¬ c.st.unsaved then some { c with pend := rest } else none)
  | ["trunc"] => some ((closure 32 cfgs cfgs).filterMap fun c => (step c.st .truncate).map fun s' => { c with st := s' })
  | ["write"] => some ((closure 32 cfgs cfgs).filterMap fun c => (step c.st .write).map fun s' => { c with st := s' })
  | ["ack", "grant", p] =>
    match p.toNat? with
    | some p => some ((closure 32 cfgs cfgs).filterMap fun c => (step c.st (.answerGrant (pairOf p))).map fun s' => { c with st := s' })
    | none => none
  | ["ack", "release", p] =>
    match p.toNat? with
    | some p => some ((closure 32 cfgs cfgs).filterMap fun c => (step c.st (.answerRelease (pairOf p))).map fun s' => { c with st := s' })
    | none => none
  | _ => none

/-- `hist held=<p,…|-> book=<p,…|->`: the holds at the start (granted, recorded and in the file) -/
def parseInit (ws : List String) : Option KCfg :=
  match ws with
  | ["hist", hs] =>
    let l := (hs.drop 5).toString
    let ps := if l = "-" then [] else (l.splitOn ",").filterMap (·.toNat?) |>.map pairOf
    some { st := { init with held := ps, book := ps, file := .table ps, ackGrant := ps, booked := ps }, pend := [] }
  | _ => none

partial def hist (h : IO.FS.Stream) (cfgs : List KCfg) (n : Nat) (bad : Option String) : IO String := do
  let line ← h.getLine
  if line.isEmpty then return "eof"
  let ws := (line.trimAscii.toString.splitOn " ").filter (· ≠ "")
  match ws with
  | ["end"] =>
    match bad with
    | some b => return b
    | none => return "ok"
  | _ =>
    match bad with
    | some _ => hist h cfgs (n + 1) bad
    | none =>
      match event cfgs ws with
      | none => hist h cfgs (n + 1) (some s!"reject {n}: unknown event {line.trimAscii.toString}")
      | some [] => hist h [] (n + 1) (some s!"reject {n}: after `{line.trimAscii.toString}` no run of the model produces the events so far")
      | some cs => hist h cs (n + 1) none

partial def linCrashMain : IO Unit := do
  let h ← IO.getStdin
  let out ← IO.getStdout
  let line ← h.getLine
  if line.isEmpty then return ()
  let ws := (line.trimAscii.toString.splitOn " ").filter (· ≠ "")
  match parseInit ws with
  | some c0 =>
    let r ← hist h [c0] 0 none
    out.putStrLn r; out.flush
    linCrashMain
  | none => out.putStrLn "bad-hist"; out.flush; linCrashMain

end Ldlm.Driver.CrashLin
