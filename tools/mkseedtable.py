#!/usr/bin/env python3
"""mkseedtable.py <first> <last>: DESIGN.md §8 table rows for seeded/m<first>..m<last> from their meta.json"""
import json, sys, os
a, b = int(sys.argv[1]), int(sys.argv[2])
for i in range(a, b + 1):
    p = '/verif/seeded/m%d/meta.json' % i
    if not os.path.exists(p):
        continue
    m = json.load(open(p))
    rs = m['checks_run']['results']
    caught = [r['check'] for r in rs if r['exit_code'] == 1]
    sigs = []
    for r in rs:
        for v in r['violations']:
            if v.startswith('violation ['):
                s = v[len('violation ['):].split(']')[0]
                if s not in sigs:
                    sigs.append(s)
    first = m['first_result_before_strengthening']
    tag = ''
    if first.startswith('MISSED'):
        tag = ' — first MISSED'
    elif 'no-failing-input-found' in first:
        tag = ' — first only no-failing-input-found'
    ch = m['change'].replace('|', '\\|')
    print('| %s | %s | %s%s | %s | %s |' % (m['id'], m['property'], ch, tag, ', '.join(caught), '; '.join(sigs[:4]).replace('|', '\\|')))
