// C14: every error condition keeps its specific code end to end (gRPC enum, REST JSON string, Go
// client exported error), errors never come with locked/unlocked == true, successes never carry an
// error.
package stack

import (
	"context"
	"errors"
	"fmt"
	"strings"
	"testing"
	"time"

	"google.golang.org/grpc/status"

	"github.com/imoore76/ldlm/client"
	pb "github.com/imoore76/ldlm/protos"

	"verif/harness/common"
)

type lockArgs struct {
	name   string
	size   *int32
	lockTO *int32
	waitTO *int32
}

func optStr(p *int32) string {
	if p == nil {
		return "-"
	}
	return fmt.Sprint(*p)
}
func (a lockArgs) String() string {
	return fmt.Sprintf("name=%s size=%s lock_timeout=%s wait_timeout=%s", a.name, optStr(a.size), optStr(a.lockTO), optStr(a.waitTO))
}

// obs is one response as the caller of a transport sees it.
type obs struct {
	Transport    string `json:"transport"`
	Rpc          string `json:"rpc"`
	Req          string `json:"request"`
	TransportErr string `json:"transport_error,omitempty"`
	HasErr       bool   `json:"has_error"`
	Code         string `json:"code,omitempty"` // grpc: enum name; rest: JSON error.code; client: the exported error it Is(), or "unmatched"
	Msg          string `json:"message,omitempty"`
	Flag         bool   `json:"locked_or_unlocked"`
	Key          string `json:"key,omitempty"`
	Raw          string `json:"raw,omitempty"`
	cliErr       error
}

type transport interface {
	kind() string
	canLock() bool    // has a blocking Lock
	canRawSize() bool // can put size <= 0 on the wire
	tryLock(a lockArgs) obs
	lock(a lockArgs) obs
	unlock(name, key string) obs
	renew(name, key string, to int32) obs
}

// ---- raw gRPC

type grpcT struct {
	g  *grpcConn
	md func(context.Context) context.Context
}

func (t *grpcT) kind() string     { return "grpc" }
func (t *grpcT) canLock() bool    { return true }
func (t *grpcT) canRawSize() bool { return true }
func (t *grpcT) ctx() (context.Context, context.CancelFunc) {
	c, cancel := rpcCtx(15 * time.Second)
	if t.md != nil {
		c = t.md(c)
	}
	return c, cancel
}
func grpcLockObs(rpc, req string, r *pb.LockResponse, err error) obs {
	o := obs{Transport: "grpc", Rpc: rpc, Req: req}
	if err != nil {
		o.TransportErr = status.Code(err).String()
		o.Msg = err.Error()
		return o
	}
	o.Flag, o.Key = r.Locked, r.Key
	if r.Error != nil {
		o.HasErr, o.Code, o.Msg = true, r.Error.Code.String(), r.Error.Message
	}
	return o
}
func (t *grpcT) tryLock(a lockArgs) obs {
	c, cancel := t.ctx()
	defer cancel()
	r, err := t.g.c.TryLock(c, &pb.TryLockRequest{Name: a.name, Size: a.size, LockTimeoutSeconds: a.lockTO})
	return grpcLockObs("TryLock", a.String(), r, err)
}
func (t *grpcT) lock(a lockArgs) obs {
	c, cancel := t.ctx()
	defer cancel()
	r, err := t.g.c.Lock(c, &pb.LockRequest{Name: a.name, Size: a.size, LockTimeoutSeconds: a.lockTO, WaitTimeoutSeconds: a.waitTO})
	return grpcLockObs("Lock", a.String(), r, err)
}
func (t *grpcT) unlock(name, key string) obs {
	c, cancel := t.ctx()
	defer cancel()
	r, err := t.g.c.Unlock(c, &pb.UnlockRequest{Name: name, Key: key})
	o := obs{Transport: "grpc", Rpc: "Unlock", Req: fmt.Sprintf("name=%s key=%s", name, key)}
	if err != nil {
		o.TransportErr, o.Msg = status.Code(err).String(), err.Error()
		return o
	}
	o.Flag = r.Unlocked
	if r.Error != nil {
		o.HasErr, o.Code, o.Msg = true, r.Error.Code.String(), r.Error.Message
	}
	return o
}
func (t *grpcT) renew(name, key string, to int32) obs {
	c, cancel := t.ctx()
	defer cancel()
	r, err := t.g.c.Renew(c, &pb.RenewRequest{Name: name, Key: key, LockTimeoutSeconds: to})
	return grpcLockObs("Renew", fmt.Sprintf("name=%s key=%s lock_timeout=%d", name, key, to), r, err)
}

// ---- REST

type restT struct{ c *restClient }

func (t *restT) kind() string     { return "rest" }
func (t *restT) canLock() bool    { return false }
func (t *restT) canRawSize() bool { return true }
func restObs(rpc, req, flag string, r restResp) obs {
	o := obs{Transport: "rest", Rpc: rpc, Req: req, Raw: fmt.Sprintf("HTTP %d %s", r.Status, r.Body)}
	if r.Err != "" || r.J == nil || r.Status != 200 {
		o.TransportErr = fmt.Sprintf("http status %d %s", r.Status, r.Err)
		return o
	}
	o.Flag, o.Key = r.flag(flag), r.str("key")
	if code, ok := r.errCode(); ok {
		o.HasErr, o.Code = true, code
		if m, ok := r.J["error"].(map[string]any); ok {
			o.Msg, _ = m["message"].(string)
		}
	}
	return o
}
func (t *restT) tryLock(a lockArgs) obs {
	return restObs("TryLock", "POST /v1/lock "+a.String(), "locked", t.c.tryLock(a.name, a.size, a.lockTO))
}
func (t *restT) lock(a lockArgs) obs { panic("REST has no Lock route") }
func (t *restT) unlock(name, key string) obs {
	return restObs("Unlock", fmt.Sprintf("POST /v1/unlock name=%s key=%s", name, key), "unlocked", t.c.unlock(name, key))
}
func (t *restT) renew(name, key string, to int32) obs {
	return restObs("Renew", fmt.Sprintf("POST /v1/renew name=%s key=%s lock_timeout=%d", name, key, to), "locked", t.c.renew(name, key, &to))
}

// ---- Go client

type clientT struct{ c *client.Client }

var clientErrs = []struct {
	name string
	err  error
}{
	{"LockDoesNotExist", client.ErrLockDoesNotExist}, {"InvalidLockKey", client.ErrInvalidLockKey},
	{"LockWaitTimeout", client.ErrLockWaitTimeout}, {"NotLocked", client.ErrLockNotLocked},
	{"LockDoesNotExistOrInvalidKey", client.ErrLockDoesNotExistOrInvalidKey},
	{"InvalidLockSize", client.ErrInvalidLockSize}, {"LockSizeMismatch", client.ErrLockSizeMismatch},
}

func (t *clientT) kind() string     { return "client" }
func (t *clientT) canLock() bool    { return true }
func (t *clientT) canRawSize() bool { return false }
func clientObs(rpc, req string, flag bool, key string, err error) obs {
	o := obs{Transport: "client", Rpc: rpc, Req: req, Flag: flag, Key: key, cliErr: err}
	if err == nil {
		return o
	}
	if _, isStatus := status.FromError(err); isStatus {
		o.TransportErr, o.Msg = status.Code(err).String(), err.Error()
		return o
	}
	o.HasErr, o.Code, o.Msg = true, "unmatched", err.Error()
	for _, ce := range clientErrs {
		if errors.Is(err, ce.err) {
			o.Code = ce.name
			break
		}
	}
	return o
}
func clientOpts(a lockArgs) *client.LockOptions {
	o := &client.LockOptions{}
	if a.size != nil {
		o.Size = *a.size
	}
	if a.lockTO != nil {
		o.LockTimeoutSeconds = *a.lockTO
	}
	if a.waitTO != nil {
		o.WaitTimeoutSeconds = *a.waitTO
	}
	return o
}
func (t *clientT) tryLock(a lockArgs) obs {
	l, err := t.c.TryLock(a.name, clientOpts(a))
	if l == nil {
		return clientObs("TryLock", a.String(), false, "", err)
	}
	return clientObs("TryLock", a.String(), l.Locked, l.Key, err)
}
func (t *clientT) lock(a lockArgs) obs {
	l, err := t.c.Lock(a.name, clientOpts(a))
	if l == nil {
		return clientObs("Lock", a.String(), false, "", err)
	}
	return clientObs("Lock", a.String(), l.Locked, l.Key, err)
}
func (t *clientT) unlock(name, key string) obs {
	u, err := t.c.Unlock(name, key)
	return clientObs("Unlock", fmt.Sprintf("name=%s key=%s", name, key), u, "", err)
}
func (t *clientT) renew(name, key string, to int32) obs {
	l, err := t.c.Renew(name, key, to)
	req := fmt.Sprintf("name=%s key=%s lock_timeout=%d", name, key, to)
	if l == nil {
		return clientObs("Renew", req, false, "", err)
	}
	return clientObs("Renew", req, l.Locked, l.Key, err)
}

// ---- the conditions

type cond struct {
	name   string
	code   pb.ErrorCode
	cliErr error
}

var (
	condNoLock    = &cond{"LockDoesNotExist", pb.ErrorCode_LockDoesNotExist, client.ErrLockDoesNotExist}
	condBadKey    = &cond{"InvalidLockKey", pb.ErrorCode_InvalidLockKey, client.ErrInvalidLockKey}
	condWait      = &cond{"LockWaitTimeout", pb.ErrorCode_LockWaitTimeout, client.ErrLockWaitTimeout}
	condRenew     = &cond{"LockDoesNotExistOrInvalidKey", pb.ErrorCode_LockDoesNotExistOrInvalidKey, client.ErrLockDoesNotExistOrInvalidKey}
	condMismatch  = &cond{"LockSizeMismatch", pb.ErrorCode_LockSizeMismatch, client.ErrLockSizeMismatch}
	condBadSize   = &cond{"InvalidLockSize", pb.ErrorCode_InvalidLockSize, client.ErrInvalidLockSize}
	wrongKeyKinds = []string{"random", "prefix", "suffixed", "uppercased", "empty"}
)

func wrongKey(kind, key string) string {
	switch kind {
	case "prefix":
		return key[:len(key)-1]
	case "suffixed":
		return key + "x"
	case "uppercased":
		if u := strings.ToUpper(key); u != key {
			return u
		}
		return key + "X"
	case "empty":
		return ""
	}
	return "00000000-0000-4000-8000-000000000000"
}

type c14run struct {
	t     *testing.T
	res   *common.Result
	srv   *proc
	cfg   string
	steps []obs // setup steps of the case being run (for the replay)
}

// check applies the monitors to one response. want == nil: the request must succeed without error.
func (k *c14run) check(o obs, want *cond, slug, variant string) {
	condName := "ok"
	if want != nil {
		condName = want.name
	}
	k.res.Eval(strings.Join([]string{k.cfg, o.Transport, o.Rpc, condName, slug, variant}, "|"), true)
	k.res.Count("config:" + k.cfg)
	k.res.Count("transport:" + o.Transport)
	k.res.Count("rpc:" + o.Rpc)
	k.res.Count("expect:" + condName)
	k.res.Count("state:" + slug)
	k.res.Sample(map[string]any{"expect": condName, "state": slug, "variant": variant, "observed": o})
	replay := map[string]any{
		"server_flags": k.srv.args, "state": slug, "variant": variant, "setup": append([]obs{}, k.steps...),
		"request": o.Req, "observed": o, "required": condName,
	}
	if o.TransportErr != "" && want != nil && o.TransportErr != "Unavailable" {
		// the server is up and answered the set-up requests: the required condition reached the caller as a
		// bare transport status (gRPC status / HTTP error status of the gateway), its specific code is lost
		// (Unavailable = connection trouble: not judged)
		k.res.Count("observed-code:" + o.Transport + ":" + o.Rpc + ":transport:" + o.TransportErr)
		k.res.Find(common.Finding{Kind: "violation", Property: "C14",
			Signature: fmt.Sprintf("stack:code:%s:%s:%s:transport-status", o.Transport, o.Rpc, slug),
			What:      fmt.Sprintf("%s over %s in state %q: the caller gets the transport status %s (%s) instead of the required %s", o.Rpc, o.Transport, slug, o.TransportErr, o.Msg, want.name),
			Replay:    replay})
		return
	}
	if o.TransportErr != "" {
		k.res.Count("inconclusive:transport-error")
		k.res.Note("C14 %s %s %s/%s: transport-level failure %q (%s): no application response to judge", o.Transport, o.Rpc, slug, variant, o.TransportErr, o.Msg)
		return
	}
	if want != nil {
		okCode := o.HasErr && o.Code == want.name
		if o.Transport == "grpc" {
			okCode = o.HasErr && o.Code == want.code.String()
		}
		if o.Transport == "client" {
			okCode = errors.Is(o.cliErr, want.cliErr)
		}
		k.res.Count("observed-code:" + o.Transport + ":" + o.Rpc + ":" + codeOrNone(o))
		if !okCode {
			obsd := "error code " + o.Code
			if !o.HasErr {
				obsd = "no error at all"
			} else if o.Transport == "client" {
				obsd = "an error that Is() " + o.Code
				if o.Code == "unmatched" {
					obsd = "an error that matches none of the client's exported error values"
				}
			}
			k.res.Find(common.Finding{Kind: "violation", Property: "C14",
				Signature: fmt.Sprintf("stack:code:%s:%s:%s", o.Transport, o.Rpc, slug),
				What:      fmt.Sprintf("%s over %s in state %q: observed %s, required %s", o.Rpc, o.Transport, slug, obsd, want.name),
				Replay:    replay})
		}
	} else if o.HasErr {
		k.res.Find(common.Finding{Kind: "violation", Property: "C14",
			Signature: fmt.Sprintf("stack:success-with-error:%s:%s", o.Transport, o.Rpc),
			What:      fmt.Sprintf("%s over %s that must succeed (%s) carries error code %s", o.Rpc, o.Transport, slug, o.Code),
			Replay:    replay})
	}
	if want == nil && slug == "grant" && !o.HasErr && !o.Flag {
		k.res.Count("inconclusive:grant-refused")
		k.res.Note("C14 %s %s %s: a request that must be granted came back without error but with a false flag: %+v", o.Transport, o.Rpc, variant, o)
	}
	if o.HasErr && o.Flag {
		k.res.Find(common.Finding{Kind: "violation", Property: "C14",
			Signature: fmt.Sprintf("stack:error-with-true-flag:%s:%s", o.Transport, o.Rpc),
			What:      fmt.Sprintf("%s over %s returns error code %s together with locked/unlocked == true", o.Rpc, o.Transport, o.Code),
			Replay:    replay})
	}
}

func codeOrNone(o obs) string {
	if !o.HasErr {
		return "none"
	}
	return o.Code
}

// setup performs a preparatory request that must be granted; it reports (key, ok).
func (k *c14run) setup(o obs) (string, bool) {
	k.steps = append(k.steps, o)
	if o.TransportErr != "" || o.HasErr || !o.Flag {
		k.res.Count("inconclusive:setup-failed")
		k.res.Note("C14 setup step failed: %+v", o)
		return "", false
	}
	return o.Key, true
}

func runC14(t *testing.T, res *common.Result, rng *common.Rng) {
	res.Rule = "enumeration: {raw gRPC, REST, Go client} x every error-producing request kind the transport can express " +
		"(Unlock of unknown name / wrong key; Lock past its wait timeout; Renew of unknown name / wrong key / hold without lease / released hold / expired lease; " +
		"TryLock and Lock with another size on an existing lock; size 0 and -1) x triggering states (hold owned by the caller's session or by another one, lock held or free, name fresh or existing) " +
		"x one seeded shape of wrong key per case (all shapes in the thorough tier, several rounds), plus a success and a busy refusal of every RPC on every transport; names and order are seeded. " +
		"The thorough tier repeats the walk on a second server configuration (password, one shard, no clear on disconnect). A case is (server configuration, transport, RPC, required condition, state, variant); every case is non-trivial (it exercises a translation layer end to end)"
	c14Server(t, res, rng.Fork(1), "default", nil, "")
	if common.Thorough() {
		// the same walk through a server with other tuning and a password on both listeners
		c14Server(t, res, rng.Fork(2), "password+one-shard+no-clear", []string{"--password", c16Password, "--shards", "1", "--no_clear_on_disconnect"}, c16Password)
	}
}

func c14Server(t *testing.T, res *common.Result, rng *common.Rng, cfgName string, extra []string, pw string) {
	srv := startServer(t, srvCfg{rest: true, extra: extra})
	if !srv.started {
		t.Fatalf("server did not start: %v", srv.logTail(40))
	}
	defer srv.stop()

	md := func(ctx context.Context) context.Context { return withPw(ctx, pw) }
	other := &grpcT{g: dialGrpc(t, srv.grpcAddr, nil), md: md} // the "other session"
	gT := &grpcT{g: dialGrpc(t, srv.grpcAddr, nil), md: md}
	rc := newRestClient(srv.restAddr, nil)
	if pw != "" {
		rc.auth = sp(basic("user:" + pw))
	}
	if r := rc.createSession(); r.Status != 201 {
		t.Fatalf("cannot create a REST session: %+v", r)
	}
	rT := &restT{c: rc}
	gc, err := client.New(context.Background(), client.Config{Address: srv.grpcAddr, NoAutoRenew: true, Password: pw})
	if err != nil {
		t.Fatal(err)
	}
	defer gc.Close()
	cT := &clientT{c: gc}
	transports := []transport{gT, rT, cT}

	k := &c14run{t: t, res: res, srv: srv, cfg: cfgName}
	rounds := 1
	if common.Thorough() {
		rounds = 4
	}

	type kase struct {
		label string
		run   func()
	}
	var cases []kase
	add := func(label string, f func()) {
		cases = append(cases, kase{label, func() { k.steps = nil; f() }})
	}

	for round := 0; round < rounds; round++ {
		r := rng.Fork(uint64(round))
		keyKinds := func() []string {
			if common.Thorough() {
				return wrongKeyKinds
			}
			return []string{common.Pick(r, wrongKeyKinds)}
		}
		for _, T := range transports {
			T := T
			holders := map[string]transport{"held-by-self": T, "held-by-other": other}
			for _, hn := range []string{"held-by-self", "held-by-other"} {
				hn, H := hn, holders[hn]

				// InvalidLockKey: Unlock of a held lock with a wrong key
				for _, lease := range []*int32{nil, i32(60)} {
					for _, kk := range keyKinds() {
						name, kk, lease := randName(r, "k"), kk, lease
						add("unlock-wrong-key", func() {
							key, ok := k.setup(H.tryLock(lockArgs{name: name, lockTO: lease}))
							if !ok {
								return
							}
							k.check(T.unlock(name, wrongKey(kk, key)), condBadKey, "wrong-key", hn+",lease="+optStr(lease)+",key="+kk)
							k.setup(H.unlock(name, key))
						})
					}
				}
				// LockWaitTimeout
				if T.canLock() {
					lease := common.Pick(r, []*int32{nil, i32(60)})
					name := randName(r, "w")
					add("lock-wait-timeout", func() {
						key, ok := k.setup(H.tryLock(lockArgs{name: name}))
						if !ok {
							return
						}
						k.check(T.lock(lockArgs{name: name, waitTO: i32(1), lockTO: lease}), condWait, "wait-timeout", hn+",lease="+optStr(lease))
						k.setup(H.unlock(name, key))
					})
				}
				// LockDoesNotExistOrInvalidKey: Renew with a wrong key / of a hold without lease / released / expired
				for _, kk := range keyKinds() {
					name, kk := randName(r, "r"), kk
					add("renew-wrong-key", func() {
						key, ok := k.setup(H.tryLock(lockArgs{name: name, lockTO: i32(60)}))
						if !ok {
							return
						}
						k.check(T.renew(name, wrongKey(kk, key), 10), condRenew, "wrong-key", hn+",key="+kk)
						k.setup(H.unlock(name, key))
					})
				}
				{
					name := randName(r, "n")
					add("renew-no-lease", func() {
						key, ok := k.setup(H.tryLock(lockArgs{name: name}))
						if !ok {
							return
						}
						k.check(T.renew(name, key, 10), condRenew, "no-lease", hn)
						k.setup(H.unlock(name, key))
					})
				}
				{
					name := randName(r, "u")
					add("renew-released", func() {
						key, ok := k.setup(H.tryLock(lockArgs{name: name, lockTO: i32(60)}))
						if !ok {
							return
						}
						if _, ok := k.setup(H.unlock(name, key)); !ok {
							return
						}
						k.check(T.renew(name, key, 10), condRenew, "released-lock", hn)
					})
				}
				// LockSizeMismatch on a lock that is held
				for _, sizes := range [][2]int32{{1, 2}, {2, 1}} {
					name, sizes := randName(r, "m"), sizes
					add("size-mismatch-held", func() {
						key, ok := k.setup(H.tryLock(lockArgs{name: name, size: i32(sizes[0])}))
						if !ok {
							return
						}
						v := fmt.Sprintf("%s,existing=%d,asked=%d", hn, sizes[0], sizes[1])
						k.check(T.tryLock(lockArgs{name: name, size: i32(sizes[1])}), condMismatch, "size-mismatch", v)
						if T.canLock() {
							k.check(T.lock(lockArgs{name: name, size: i32(sizes[1]), waitTO: i32(1)}), condMismatch, "size-mismatch", v)
						}
						k.setup(H.unlock(name, key))
					})
				}
			}

			// expired lease (one per transport and round: it costs 1.6 s)
			{
				name := randName(r, "e")
				add("renew-expired", func() {
					key, ok := k.setup(T.tryLock(lockArgs{name: name, lockTO: i32(1)}))
					if !ok {
						return
					}
					time.Sleep(1600 * time.Millisecond)
					k.check(T.renew(name, key, 10), condRenew, "expired-lease", "held-by-self")
				})
			}
			// LockDoesNotExist / Renew of an unknown name
			for _, key := range []string{"some-key", ""} {
				name, key := randName(r, "x"), key
				add("unknown-lock", func() {
					k.check(T.unlock(name, key), condNoLock, "unknown-lock", "key="+key)
					k.check(T.renew(name+"r", key, 10), condRenew, "unknown-lock", "key="+key)
				})
			}
			// LockSizeMismatch on an existing lock that is free
			{
				name := randName(r, "f")
				add("size-mismatch-free", func() {
					key, ok := k.setup(T.tryLock(lockArgs{name: name}))
					if !ok {
						return
					}
					if _, ok := k.setup(T.unlock(name, key)); !ok {
						return
					}
					k.check(T.tryLock(lockArgs{name: name, size: i32(2)}), condMismatch, "size-mismatch", "free,existing=1,asked=2")
					if T.canLock() {
						k.check(T.lock(lockArgs{name: name, size: i32(2)}), condMismatch, "size-mismatch", "free,existing=1,asked=2")
					}
				})
			}
			// InvalidLockSize
			if T.canRawSize() {
				for _, sz := range []int32{0, -1} {
					for _, existing := range []bool{false, true} {
						name, sz, existing := randName(r, "z"), sz, existing
						slug := map[int32]string{0: "size-zero", -1: "size-negative"}[sz]
						add(slug, func() {
							v := "fresh-name"
							var key string
							if existing {
								v = "existing-held-lock"
								var ok bool
								if key, ok = k.setup(other.tryLock(lockArgs{name: name})); !ok {
									return
								}
							}
							k.check(T.tryLock(lockArgs{name: name, size: i32(sz)}), condBadSize, slug, v)
							if T.canLock() {
								k.check(T.lock(lockArgs{name: name, size: i32(sz), waitTO: i32(1)}), condBadSize, slug, v)
							}
							if existing {
								k.setup(other.unlock(name, key))
							}
						})
					}
				}
			}
			// successes and plain refusals
			{
				n1, n2, n3 := randName(r, "s"), randName(r, "s"), randName(r, "b")
				sz := common.Pick(r, []*int32{nil, i32(1), i32(3)})
				add("success", func() {
					o := T.tryLock(lockArgs{name: n1, lockTO: i32(60), size: sz})
					k.check(o, nil, "grant", "trylock,lease=60,size="+optStr(sz))
					if o.Flag {
						k.check(T.renew(n1, o.Key, 60), nil, "grant", "renew-own-leased-hold")
						k.check(T.unlock(n1, o.Key), nil, "grant", "unlock-own-hold")
					}
					if T.canLock() {
						o := T.lock(lockArgs{name: n2, waitTO: i32(1)})
						k.check(o, nil, "grant", "lock-free-name")
						if o.Flag {
							k.check(T.unlock(n2, o.Key), nil, "grant", "unlock-own-hold")
						}
					}
					key, ok := k.setup(other.tryLock(lockArgs{name: n3}))
					if !ok {
						return
					}
					k.check(T.tryLock(lockArgs{name: n3}), nil, "busy", "trylock-held-by-other")
					k.check(T.unlock(n3, key), nil, "grant", "unlock-hold-of-other-session-by-key")
				})
			}
		}
	}

	shuffle(rng, cases)
	for _, c := range cases {
		res.Count("case-kind:" + c.label)
		c.run()
		if srv.exited() {
			res.Find(common.Finding{Kind: "violation", Property: "C14", Signature: "stack:server-died",
				What:   "the server process ended while serving the error-code scenario",
				Replay: map[string]any{"server_flags": srv.args, "last_case": c.label, "log_tail": srv.logTail(40)}})
			return
		}
	}
}
