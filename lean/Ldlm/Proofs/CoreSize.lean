import Ldlm.Proofs.CoreLock
import Ldlm.Proofs.CoreBlocks
/-! Every lock record has a positive size (records are created only by `getLockCreate`, which refuses
`size ≤ 0`, and no block changes a record's size).  With Part A (`LockOk`): a record without keys has
no waiters. -/
namespace Ldlm.Core

variable {M : Type} (o : MapOps M) (c : Cfg)

def SizeInv (s : St M) : Prop := ∀ n r, o.get s.locks n = some r → 0 < r.size

variable {o} {c}

theorem SizeInv.set (ho : o.Lawful) {s : St M} (h : SizeInv o s) {n : Str} {r : LockRec} (hr : 0 < r.size)
    {s' : St M} (hs : s'.locks = o.set s.locks n r) : SizeInv o s' := by
  intro n' r' hg
  rw [hs] at hg
  rcases get_set_cases ho hg with ⟨_, e⟩ | hg'
  · rw [e]; exact hr
  · exact h n' r' hg'

theorem SizeInv.same {s s' : St M} (h : SizeInv o s) (hs : s'.locks = s.locks) : SizeInv o s' := by
  intro n r hg; rw [hs] at hg; exact h n r hg

theorem handOverRec_size (r : LockRec) : (handOverRec r).size = r.size := by
  unfold handOverRec; split <;> rfl

theorem mgrUnlock_size (ho : o.Lawful) {s : St M} (h : SizeInv o s) (n k : Str) :
    SizeInv o (mgrUnlock o s n k).1 := by
  unfold mgrUnlock
  split
  · exact h
  · rename_i r hg
    have hr := h n r hg
    simp only
    split
    · refine SizeInv.set ho h (n := n) (r := handOverRec { r with lastAccessed := s.now, keys := r.keys.erase k }) ?_ ?_
      · rw [handOverRec_size]; exact hr
      · rw [handOver_locks]
    · exact SizeInv.set ho h (r := { r with lastAccessed := s.now }) hr rfl

theorem getLockCreate_size {s : St M} (h : SizeInv o s) {n : Str} {sz : Int} {r : LockRec}
    (hg : getLockCreate o s n sz = .ok r) : 0 < r.size := by
  unfold getLockCreate at hg
  split at hg
  · cases hg
  · split at hg
    · rename_i r0 hr0
      split at hg
      · cases hg
      · cases hg; exact h n r0 hr0
    · cases hg
      rename_i hsz _
      simp only; omega

theorem srvTryLock_size (ho : o.Lawful) {s : St M} (h : SizeInv o s) (sid : Option Sid) (n : Str) (sz lt : Option Int) :
    SizeInv o (srvTryLock o c s sid n sz lt).1 := by
  unfold srvTryLock
  simp only
  split
  · exact SizeInv.same h rfl
  · split
    · exact SizeInv.same h rfl
    · split
      · exact SizeInv.same h rfl
      · split
        · exact SizeInv.same h rfl
        · rename_i r hg
          have hr : 0 < r.size := getLockCreate_size (s := { s with nreq := s.nreq + 1 }) (SizeInv.same h rfl) hg
          split
          · exact SizeInv.set ho h (n := n) (r := { r with keys := r.keys ++ [c.genKey s.nreq] }) hr (by simp)
          · exact SizeInv.set ho h hr rfl

theorem srvLock_size (ho : o.Lawful) {s : St M} (h : SizeInv o s) (sid : Option Sid) (n : Str) (sz lt wt : Option Int) :
    SizeInv o (srvLock o c s sid n sz lt wt).1 := by
  unfold srvLock
  simp only
  split
  · exact SizeInv.same h rfl
  · split
    · exact SizeInv.same h rfl
    · split
      · exact SizeInv.same h rfl
      · split
        · exact SizeInv.same h rfl
        · split
          · exact SizeInv.same h rfl
          · rename_i r hg
            have hr : 0 < r.size := getLockCreate_size (s := { s with nreq := s.nreq + 1 }) (SizeInv.same h rfl) hg
            split
            · exact SizeInv.set ho h (n := n) (r := { r with keys := r.keys ++ [c.genKey s.nreq] }) hr (by simp)
            · exact SizeInv.set ho h (n := n) (r := { r with q := r.q ++ [_] }) hr rfl

theorem srvUnlock_size (ho : o.Lawful) {s : St M} (h : SizeInv o s) (n k : Str) :
    SizeInv o (srvUnlock o s n k).1 := by
  unfold srvUnlock
  simp only
  have h1 : SizeInv o (mgrUnlock o { s with timers := AMap.del s.timers (tkey n k) } n k).1 :=
    mgrUnlock_size ho (s := { s with timers := AMap.del s.timers (tkey n k) }) (SizeInv.same h rfl) n k
  split
  · exact SizeInv.same h1 (by simp)
  · exact h1

theorem abandon_size (ho : o.Lawful) {s : St M} (h : SizeInv o s) (p : Pending) (e : Err) :
    SizeInv o (abandon o s p e).1 := by
  unfold abandon
  simp only
  split
  · rename_i r hg
    exact SizeInv.set ho h (r := { r with q := r.q.filter (fun p' => p'.req ≠ p.req) }) (h p.name r hg) rfl
  · exact SizeInv.same h rfl

theorem fireLease_size (ho : o.Lawful) {s : St M} (h : SizeInv o s) (tk : Str) (tm : Timer) :
    SizeInv o (fireLease o s tk tm).1 := by
  unfold fireLease
  simp only
  exact SizeInv.same (mgrUnlock_size ho h tm.name tm.key) (by simp)

theorem clearHolds_size (ho : o.Lawful) (hs : List Hold) : ∀ {s : St M} (ev : List Event),
    SizeInv o s → SizeInv o (hs.foldl (fun (acc : St M × List Event) h =>
      let (s', ok, _, ev) := mgrUnlock o acc.1 h.name h.key
      let s' := if ok then { s' with timers := AMap.del s'.timers (tkey h.name h.key) } else s'
      (s', acc.2 ++ ev)) (s, ev)).1 := by
  induction hs with
  | nil => intro s ev h; exact h
  | cons x hs ih =>
    intro s ev h
    simp only [List.foldl_cons]
    apply ih
    have := mgrUnlock_size ho h x.name x.key
    split
    · exact SizeInv.same this rfl
    · exact this

theorem destroy_size (ho : o.Lawful) {s : St M} (h : SizeInv o s) (sid : Sid) :
    SizeInv o (destroy o c s sid).1 := by
  unfold destroy
  split
  · exact h
  · simp only
    split
    · exact SizeInv.same h rfl
    · exact clearHolds_size ho _ [] (SizeInv.same h rfl)

theorem gcPass_size (ho : o.Lawful) {s : St M} (h : SizeInv o s) (mi : Nat) : SizeInv o (gcPass o s mi) := by
  intro n r hg
  simp only [gcPass, ho.get_filter] at hg
  cases hx : o.get s.locks n with
  | none => simp [hx] at hg
  | some r0 =>
    simp only [hx, Option.filter] at hg
    split at hg
    · have e := Option.some.inj hg; rw [← e]; exact h n r0 hx
    · cases hg

theorem restoreOne_size (ho : o.Lawful) {s : St M} (h : SizeInv o s) (sid : Sid) (x : Hold) :
    SizeInv o (restoreOne o c s sid x) := by
  unfold restoreOne
  simp only
  split
  · exact SizeInv.same h (by simp)
  · rename_i r hg
    have hr : 0 < r.size := getLockCreate_size h hg
    split
    · exact SizeInv.set ho h (r := { r with keys := r.keys ++ [x.key] }) hr rfl
    · exact SizeInv.set ho (s := removeBook s x.name x.key) (SizeInv.same h (by simp)) hr rfl

theorem restoreAll_size (ho : o.Lawful) (m : List (Sid × List Hold)) : ∀ {s : St M},
    SizeInv o s → SizeInv o (restoreAll o c s m) := by
  unfold restoreAll
  induction m with
  | nil => intro s h; exact h
  | cons e m ih =>
    intro s h
    simp only [List.foldl_cons]
    apply ih
    generalize e.2 = hs
    induction hs generalizing s with
    | nil => exact h
    | cons x hs ih2 => simp only [List.foldl_cons]; exact ih2 (restoreOne_size ho h e.1 x)

theorem restart_size (ho : o.Lawful) (s : St M) : SizeInv o (restart o c s).1 := by
  unfold restart
  simp only
  apply restoreAll_size ho
  intro n r hg
  simp only [ho.get_empty] at hg
  cases hg

/-- the per-record facts the GC simulation needs: Part A and positive sizes -/
def RecInv (o : MapOps M) (s : St M) : Prop := LockInv o s ∧ SizeInv o s

theorem recInv_blocks (ho : o.Lawful) : Blocks (o := o) (c := c) (RecInv o) where
  connect s sid h := by
    simp only [step]
    split
    · exact ⟨LockInv.same h.1 rfl, SizeInv.same h.2 rfl⟩
    · exact h
  abandon s p e h := ⟨abandon_inv ho h.1 p e, abandon_size ho h.2 p e⟩
  destroy s sid h := ⟨destroy_inv ho h.1 sid, destroy_size ho h.2 sid⟩
  tryLock s sid n sz lt h := ⟨srvTryLock_inv ho h.1 sid n sz lt, srvTryLock_size ho h.2 sid n sz lt⟩
  lock s sid n sz lt wt h := ⟨srvLock_inv ho h.1 sid n sz lt wt, srvLock_size ho h.2 sid n sz lt wt⟩
  unlock s n k h := ⟨srvUnlock_inv ho h.1 n k, srvUnlock_size ho h.2 n k⟩
  renew s n k t h := by
    simp only [srvRenew]
    split
    · exact h
    · split
      · exact h
      · exact ⟨LockInv.same h.1 rfl, SizeInv.same h.2 rfl⟩
  tick s t h := ⟨LockInv.same h.1 rfl, SizeInv.same h.2 rfl⟩
  fire s tk tm _ h := ⟨fireLease_inv ho h.1 tk tm, fireLease_size ho h.2 tk tm⟩
  gc s mi g h := ⟨LockInv.same (gcPass_inv ho h.1 mi) rfl, SizeInv.same (gcPass_size ho h.2 mi) rfl⟩

theorem recInv_restart (ho : o.Lawful) (s : St M) (h : RecInv o s) : RecInv o (restart o c s).1 :=
  ⟨restart_inv ho h.1, restart_size ho s⟩

theorem recInv_init (ho : o.Lawful) : RecInv o (init o c : St M) :=
  ⟨init_inv ho, by intro n r hg; simp only [init, ho.get_empty] at hg; cases hg⟩

/-- a record without keys has no waiters -/
theorem RecInv.no_waiter {s : St M} (h : RecInv o s) {n : Str} {r : LockRec} (hg : o.get s.locks n = some r)
    (hk : r.keys = []) : r.q = [] := by
  have h1 := (h.1 n r hg).2
  have h2 := h.2 n r hg
  by_cases hq : r.q = []
  · exact hq
  · have := h1 hq
    rw [hk] at this
    simp at this
    omega

end Ldlm.Core
