import Ldlm.Generated.Facts
/-!
Source fingerprints for C16: the functions of /repo its models were written against (verifcfg.FPMAP).
`Facts.fp_*` is regenerated from the working tree by every check (first 16 hex digits of SHA-256 of the
normalised signature and body); the right-hand sides were copied from a reviewed tree by tools/mkfp.py and
are NOT regenerated. A pin that no longer checks = this function changed since the models were written.
-/
namespace Ldlm.Pins.FP.C16
open Ldlm

/-- net/rest/rest.go: restHandler.ServeHTTP -/
theorem fp_net_rest_rest_restHandler_ServeHTTP : Facts.fp_net_rest_rest_restHandler_ServeHTTP = "0b151c3347286669" := rfl
/-- net/rest/rest.go: restHandler.ValidatePassword -/
theorem fp_net_rest_rest_restHandler_ValidatePassword : Facts.fp_net_rest_rest_restHandler_ValidatePassword = "469970c23cce8baf" := rfl
/-- net/grpc/grpc.go: Run -/
theorem fp_net_grpc_grpc_Run : Facts.fp_net_grpc_grpc_Run = "5ad0b509b3e7a51e" := rfl
/-- net/grpc/grpc.go: authPasswordInterceptor -/
theorem fp_net_grpc_grpc_authPasswordInterceptor : Facts.fp_net_grpc_grpc_authPasswordInterceptor = "863bb5cc0537355a" := rfl
/-- net/net.go: Run -/
theorem fp_net_net_Run : Facts.fp_net_net_Run = "4cc945e928d276ec" := rfl
/-- net/security/security.go: GetTLSConfig -/
theorem fp_net_security_security_GetTLSConfig : Facts.fp_net_security_security_GetTLSConfig = "9954b45ddf85d8db" := rfl

end Ldlm.Pins.FP.C16
