// Added to package client through `go test -overlay` by /verif (guard "verif"); never part of /repo.
package client

import (
	"context"

	pb "github.com/imoore76/ldlm/protos"
)

type verifNopCloser struct{}

func (verifNopCloser) Close() error { return nil }

// VerifNew builds a Client over an in-process LDLMClient (the client tests do the same with an
// unexported helper).
func VerifNew(ctx context.Context, pbc pb.LDLMClient, noAutoRenew bool, maxRetries int) *Client {
	var conn closer = verifNopCloser{}
	if c, ok := pbc.(closer); ok { // a transport that can be closed plays the connection
		conn = c
	}
	return &Client{conn: conn, pbc: pbc, ctx: ctx, noAutoRenew: noAutoRenew, maxRetries: maxRetries}
}

// VerifRenewNames lists the keys of the renew map.
func (c *Client) VerifRenewNames() []string {
	out := []string{}
	c.renewMap.Range(func(k, _ interface{}) bool {
		out = append(out, k.(string))
		return true
	})
	return out
}
