import Ldlm.Proofs.Table
import Ldlm.Proofs.CoreDead
import Ldlm.Proofs.Threads
import Ldlm.Proofs.CoreSize
/-!
C02 — Lock/TryLock/Unlock are linearizable to a counting lock with keys.

Model M1 (`Ldlm.Table`): one action per critical section of `lock.go` / `manager.go`, any number of
threads, any schedule (`List Act`).  Every action emits the operations of the atomic specification
(`AOp`: try / grant / unlock with their results) that take effect at it.

* `refines_atomic_lock` — for EVERY schedule on a lock object the emitted operations, in schedule
  order, are an execution of the atomic counting lock (TryLock succeeds exactly when fewer than
  `size` keys are live, each live key unlocks successfully once, a failed or cancelled acquisition
  emits nothing that consumes capacity) ending in the abstraction of the final state.  Each
  operation is emitted by a step of the call it belongs to (or, for a queued Lock, by the release
  that hands it the unit while the call is pending), i.e. inside the call's interval: that is
  linearizability.  Hypothesis `AllSide`: a failing Unlock does not present a key that is still in
  the middle of being granted — a key no client has been told yet.
* `conservation` — for every schedule, with no hypothesis: units taken = live keys + grants in
  progress, never more than `size`; so free capacity = size − live holds: a free lock is never
  reported busy (`try_refused_only_when_full`), no unit is lost or duplicated.
* `unlock_at_most_once` — a successful Unlock removes its key; with distinct keys a second Unlock of
  it fails.
* `unlock_exactly_once` — sequential server model M2, every reachable state and EVERY continuation of
  the history (requests, expiries, session ends, collections, restarts): after a successful Unlock of
  (name, key) the pair is never held again and every further Unlock with it fails.
* `linearizable_real_time_partial` — model M1t (`Ldlm.Threads`): the same critical sections run by THREADS with a
  program counter, each call with an invocation and a return event.  For EVERY schedule of any number
  of TryLock / Lock / Unlock calls (cancelled and refused ones included) on a lock object nobody is
  using: (1) every specification operation is attributed to a call that has been invoked and has not
  yet returned — its linearization point lies inside the call's interval, so the order of the
  operations respects the real-time order of non-overlapping calls; (2) every call returns exactly the
  result its operation has in the specification (a call without operation reports failure, a Lock that
  was handed the unit after giving up hands it back inside the call); (3) the operations in that order
  are a run of the atomic counting lock.  (1)–(3) is linearizability with explicit linearization points.
  PARTIAL in one respect (recorded as K21): a blocking Lock that gives up (context cancelled, wait
  time-out) AFTER `Release` has already handed it the unit is linearized as TWO operations inside its
  interval — the grant, and the release it performs itself (`x/sync/semaphore`: "Acquired the semaphore
  after we were canceled … put the tokens back").  Between the two the lock is full although no hold
  is live and none will be: a TryLock in that window is refused.  Against the strict specification (a
  failed acquisition has no effect at all) that history is NOT linearizable:
  `handback_window_refutes_strict` is a kernel-checked schedule of M1t that the checker accepts and
  whose client-visible operations are not a run of the atomic lock; the conc stream replays it on the
  real code (template `lock(request-cancelled)‖unlock;trylock`).
After the repair of D14/W1 (`fix:` 066861c) `Lock.Unlock` is one critical section and the model has
no "key removed, unit not yet released" state: the W1 history is not a run of the model any more.
-/
namespace Ldlm.Props.C02
open Ldlm.Table

/-- **C02** -/
theorem refines_atomic_lock (n : Str) (as : List Act) (o o' : Obj) (ev : List AOp)
    (hi : ObjInv o) (hside : AllSide n o as) (hr : runObj n o as = some (o', ev)) :
    ∃ h', arun o.size o.abs ev = some h' ∧ h'.Perm o'.abs :=
  refines_obj n as o o' ev hi hside hr

/-- a fresh object satisfies the invariant: the theorem applies to every schedule from creation -/
theorem fresh_object_inv (size plain : Nat) :
    ObjInv { size := size, cur := 0, q := [], keys := [], acq := [], plain := plain } :=
  ⟨by simp, by simp, by simp⟩

theorem conservation (n : Str) (as : List Act) (o o' : Obj) (ev : List AOp) (hi : ObjInv o)
    (hr : runObj n o as = some (o', ev)) :
    o'.cur = o'.keys.length + o'.acq.length ∧ o'.cur ≤ o'.size ∧ o'.size = o.size := by
  obtain ⟨h, hs⟩ := runObj_inv n as o o' ev hi hr
  exact ⟨h.conserve, h.bound, hs⟩

/-- a TryLock is refused only when every unit is taken by a live key or a grant in progress -/
theorem try_refused_only_when_full (n : Str) (o o' : Obj) (t : Tid) (k : Str) (hi : ObjInv o)
    (hs : stepObj n o (.tryAcquire t n k) = some (o', [.try n k false])) :
    o.keys.length + o.acq.length = o.size := by
  simp only [stepObj] at hs
  split at hs
  · cases hs
  · split at hs
    · simp at hs
    · rename_i hg
      have := hi.conserve
      have := hi.bound
      by_cases hq : o.q = []
      · have : ¬ o.cur < o.size := fun h => hg ⟨h, hq⟩
        omega
      · have := hi.nolost hq; omega

theorem unlock_at_most_once (n : Str) (o o' : Obj) (t : Tid) (k : Str) (ev : List AOp) (hnd : o.keys.Nodup)
    (hk : k ∈ o.keys) (hs : stepObj n o (.unlock t n k) = some (o', ev)) : k ∉ o'.keys := by
  simp only [stepObj, hk, if_true] at hs
  split at hs
  · cases hs
  · simp at hs
    have : o'.keys = o.keys.erase k := by
      rw [← hs.1]; unfold Obj.freeUnit; split <;> rfl
    rw [this]
    exact fun h => (hnd.mem_erase_iff.mp h).1 rfl

/-! non-vacuity: a two-thread schedule on a size-1 lock — T1 acquires, T2 queues, T1 unlocks (the unit
goes to T2), T2 records its key — runs, satisfies the side condition, and emits grant, unlock, grant -/
def o0 : Obj := { size := 1, cur := 0, q := [], keys := [], acq := [], plain := 2 }
def sched : List Act :=
  [.acquire 1 [120] [107, 49], .addKey 1 [120] [107, 49], .acquire 2 [120] [107, 50],
   .unlock 1 [120] [107, 49], .addKey 2 [120] [107, 50]]

example : (runObj [120] o0 sched).map (·.2) =
    some [.grant [120] [107, 49], .unlock [120] [107, 49] true, .grant [120] [107, 50]] := by decide
example : AllSide [120] o0 sched := by
  simp [AllSide, sched, o0, stepObj, sideOk, Obj.freeUnit]

/-! ### linearizability with real-time order (M1t: the calls as threads) -/
section
open Ldlm.Threads

/-- **C02, real-time order**: every schedule of threaded calls yields a well-formed trace (`wf`:
linearization points inside the calls' intervals, results as in the specification) whose operations,
in trace order, are a run of the atomic counting lock ending in the abstraction of the final state -/
theorem linearizable_real_time_partial (n : Str) (o : Obj) (as : List TAct) (s' : TSt) (tr : List Ev)
    (hi : ObjInv o) (hq : o.q = []) (ha : o.acq = []) (hside : AllSideT n ⟨o, []⟩ as)
    (hr : trun n ⟨o, []⟩ as = some (s', tr)) :
    wf n [] tr = true ∧ ∃ h', arun o.size o.abs (lins tr) = some h' ∧ h'.Perm s'.o.abs := by
  have h0 := idle_inv n o hi hq ha
  exact ⟨(trun_wf n as _ s' tr h0 hr).2, trun_refines n as _ s' tr h0 hside hr⟩

/-- **capacity at the level of calls (C01)**: after every schedule of threaded calls, live keys plus grants
in progress never exceed the size the object was created with -/
theorem capacity_threads (n : Str) (o : Obj) (as : List TAct) (s' : TSt) (tr : List Ev)
    (hi : ObjInv o) (hq : o.q = []) (ha : o.acq = []) (hr : trun n ⟨o, []⟩ as = some (s', tr)) :
    s'.o.keys.length + s'.o.acq.length ≤ o.size := by
  have h0 := idle_inv n o hi hq ha
  have hinv := (trun_wf n as _ s' tr h0 hr).1
  have hsz := trun_size n as _ s' tr h0 hr
  have := hinv.obj.conserve
  have := hinv.obj.bound
  simp at hsz
  omega

/-- **real-time order, explicitly**: in the trace of any schedule, every operation attributed to a thread
is preceded by an invocation of that thread (nothing takes effect before the call) … -/
theorem lin_after_invocation (n : Str) (o : Obj) (as : List TAct) (s' : TSt) (tr : List Ev)
    (hi : ObjInv o) (hq : o.q = []) (ha : o.acq = []) (hr : trun n ⟨o, []⟩ as = some (s', tr))
    (t : Tid) (p q : List Ev) (op : AOp) (h : tr = p ++ .lin t op :: q) : ∃ c, Ev.inv t c ∈ p :=
  lin_after_inv n tr [] t (trun_wf n as _ s' tr (idle_inv n o hi hq ha) hr).2 (by simp [view]) p q op h

/-- … and once a call has returned nothing more is attributed to its thread until the thread's next
invocation (nothing takes effect after the call): a call that returned before another was invoked has
all its operations first - the order of the operations respects the real-time order of the calls -/
theorem no_lin_after_return (n : Str) (os : List (Tid × Call × List AOp)) (t : Tid) (ok : Bool) (es : List Ev)
    (hw : wf n os (.ret t ok :: es) = true) (p q : List Ev) (op : AOp) (h : es = p ++ .lin t op :: q) :
    ∃ c, Ev.inv t c ∈ p :=
  no_lin_after_ret n os t ok es hw p q op h

/-- the checker is not vacuous: it rejects a grant attributed to a call that has already returned, a
result that contradicts the operation, and an operation of a call never invoked -/
example : wf [120] [] [.inv 1 (.tryLock [107]), .ret 1 false, .lin 1 (.try [120] [107] true)] = false := by decide
example : wf [120] [] [.inv 1 (.tryLock [107]), .lin 1 (.try [120] [107] true), .ret 1 false] = false := by decide
example : wf [120] [] [.lin 2 (.grant [120] [107])] = false := by decide
example : wf [120] [] [.inv 1 (.lock [107]), .lin 1 (.grant [120] [107]), .ret 1 true] = true := by decide

/-! non-vacuity: T1 takes the size-1 lock, T2 queues behind it, T3's TryLock is refused, T1 unlocks (the
unit is handed to T2 inside T1's critical section: the grant is T2's linearization point, while T2's
call is pending), T2 records its key and returns — the schedule runs, meets the side condition, and the
trace carries the hand-over `lin 2 (grant …)` between `inv 2` and `ret 2` -/
def oT : Obj := { size := 1, cur := 0, q := [], keys := [], acq := [], plain := 0 }
def schedT : List TAct :=
  [.invoke 1 (.lock [107, 49]), .next 1, .next 1, .next 1, .next 1,
   .invoke 2 (.lock [107, 50]), .next 2, .next 2,
   .invoke 3 (.tryLock [107, 51]), .next 3, .next 3, .next 3,
   .invoke 1 (.unlock [107, 49]), .next 1, .next 1, .next 1,
   .next 2, .next 2]

example : (trun [120] ⟨oT, []⟩ schedT).map (·.2) = some
    [.inv 1 (.lock [107, 49]), .lin 1 (.grant [120] [107, 49]), .ret 1 true,
     .inv 2 (.lock [107, 50]),
     .inv 3 (.tryLock [107, 51]), .lin 3 (.try [120] [107, 51] false), .ret 3 false,
     .inv 1 (.unlock [107, 49]), .lin 1 (.unlock [120] [107, 49] true), .lin 2 (.grant [120] [107, 50]), .ret 1 true,
     .ret 2 true] := by decide
example : AllSideT [120] ⟨oT, []⟩ schedT := by
  simp [AllSideT, schedT, oT, tstep, project, stepObj, sideOk, Obj.freeUnit, AMap.get, AMap.set, AMap.del, handOver, credit]
end

/-! ### the strict reading fails: the hand-back window (K21) -/
section
open Ldlm.Threads

/-- size-1 lock held with key `h`; T2's Lock queues; T1 unlocks (the unit is handed to T2, whose call is
still pending) and returns; T3's TryLock, invoked after T1 returned, is refused; T2 gives up and hands
the unit back; everybody returns -/
def oH : Obj := { size := 1, cur := 1, q := [], keys := [[104]], acq := [], plain := 0 }
def schedH : List TAct :=
  [.invoke 2 (.lock [50]), .next 2, .next 2,                     -- T2 queued
   .invoke 1 (.unlock [104]), .next 1, .next 1, .next 1,         -- T1: Unlock(h) = true, returned
   .invoke 3 (.tryLock [51]), .next 3, .next 3, .next 3,         -- T3: TryLock = false, returned
   .giveUp 2, .next 2]                                           -- T2: cancelled after the hand-over: gives the unit back, returns false

/-- the model runs the schedule, the checker accepts the trace (T2's grant and release lie inside T2's call) … -/
theorem handback_window_runs :
    (trun [120] ⟨oH, []⟩ schedH).map (·.2) = some
      [.inv 2 (.lock [50]),
       .inv 1 (.unlock [104]), .lin 1 (.unlock [120] [104] true), .lin 2 (.grant [120] [50]), .ret 1 true,
       .inv 3 (.tryLock [51]), .lin 3 (.try [120] [51] false), .ret 3 false,
       .lin 2 (.unlock [120] [50] true), .ret 2 false] ∧
    ((trun [120] ⟨oH, []⟩ schedH).map (fun r => wf [120] [] r.2)) = some true := by decide

/-- … but what the CLIENTS saw — Unlock(h) = true, then TryLock = false, and a Lock that failed — is not a
run of the atomic counting lock when the failed Lock is given no effect: after the Unlock nothing is
live, so the TryLock had to succeed.  The strict reading of C02 is false of the model, and (K21) of the code. -/
theorem handback_window_refutes_strict :
    arun 1 [[104]] [.unlock [120] [104] true, .try [120] [51] false] = none := by decide
end

/-! ### each granted key unlocks successfully exactly once (M2, for every continuation) -/
section
open Ldlm.Core
variable {M : Type} {o : MapOps M} {c : Cfg}

theorem unlock_exactly_once (ho : o.Lawful) (hinj : KeysInjective c) (ops ops' : List Op) (n k : Core.Str) (sid sid' : Option Sid)
    (hok : (Core.step o c (Core.run o c ops) (.unlock sid n k)).2.ok = true) :
    let t := ops'.foldl (fun s op => (Core.step o c s op).1) (Core.step o c (Core.run o c ops) (.unlock sid n k)).1
    ¬ held o t n k ∧ (Core.step o c t (.unlock sid' n k)).2.ok = false :=
  unlock_once ho hinj ops ops' sid sid' hok

/-- non-vacuity: a key is granted, unlocked, the name is taken again and the server restarts; the old key still fails -/
def cfgU : Cfg := { gcInterval := 0, gcMinIdle := 0, dlt := 600 * sec, noClear := false, hasFile := true,
                    genKey := fun n => 75 :: natDigits n }
def su : Core.Str := [115, 49]
example : (Core.step flatOps cfgU (Core.run flatOps cfgU [.connect su, .tryLock (some su) [97] none none]) (.unlock (some su) [97] (cfgU.genKey 0))).2.ok = true := by decide
example : (Core.step flatOps cfgU (Core.run flatOps cfgU [.connect su, .tryLock (some su) [97] none none, .unlock (some su) [97] (cfgU.genKey 0),
    .tryLock (some su) [97] none none, .restart]) (.unlock (some su) [97] (cfgU.genKey 0))).2.ok = false := by decide

/-! ### the sequential model answers as the atomic counting lock does
M2 is what the seq stream compares the real server with, operation by operation; M1 / M1t show that
every concurrent schedule of the table linearizes to the atomic counting lock `astep`.  These two
lemmas close the triangle: on every record that satisfies M2's invariant (`RecInv`, proved for every
reachable state) M2's TryLock and Unlock decide exactly as `astep` does. -/
open Ldlm.Table in
theorem seq_trylock_atomic (ho : o.Lawful) (s : Core.St M) (h : RecInv o s) (sid : Sid) (n : Core.Str) (sz lt : Option Int)
    (r : LockRec) (hg : o.get s.locks n = some r) (hn : n ≠ []) (hlt : negOpt lt = false) (hsz : sz.getD 1 = r.size) :
    (Core.step o c s (.tryLock (some sid) n sz lt)).2.ok =
      (astep r.size.toNat r.keys (.try n (c.genKey s.nreq) true)).isSome := by
  have hpos := h.2 n r hg
  have hok := h.1 n r hg
  simp only [Core.step, srvTryLock, hlt, hn, hsz, getLockCreate, hg]
  have h1 : ¬ r.size ≤ 0 := by omega
  simp only [h1, if_false, ne_eq, not_true_eq_false, Bool.false_eq_true, if_false]
  simp only [astep]
  by_cases hc : (r.keys.length : Int) < r.size
  · have hq : r.q = [] := by
      by_cases e : r.q = []
      · exact e
      · have := hok.2 e; omega
    have : r.keys.length < r.size.toNat := by omega
    simp [hc, hq, this]
  · have : ¬ r.keys.length < r.size.toNat := by omega
    simp [hc, this]

/-- every state the sequential model reaches satisfies the hypothesis of `seq_trylock_atomic` -/
theorem seq_reachable_recInv (ho : o.Lawful) (ops : List Op) : RecInv o (Core.run o c ops) :=
  (recInv_blocks (c := c) ho).run (fun s h => recInv_restart ho s h) (recInv_init ho) ops

open Ldlm.Table in
theorem seq_unlock_atomic (s : Core.St M) (sid : Option Sid) (n k : Core.Str) (r : LockRec)
    (hg : o.get s.locks n = some r) :
    (Core.step o c s (.unlock sid n k)).2.ok = (astep r.size.toNat r.keys (.unlock n k true)).isSome := by
  simp only [Core.step, srvUnlock, mgrUnlock, hg, astep]
  by_cases hk : k ∈ r.keys <;> simp [hk]
end

end Ldlm.Props.C02
