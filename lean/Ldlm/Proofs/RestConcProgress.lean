import Ldlm.Proofs.RestConc
namespace Ldlm.RestConc
open Ldlm.Lease (TimerSt)

/-- **deadlock freedom**: while any thread is unfinished (or a lock is held) some thread can take a step -/
theorem progress (s : St) (h : Inv s) (hb : s.tbl ≠ none ∨ ∃ j, (s.sess j).busy) :
    ∃ a, a.isThread = true ∧ step s a ≠ none := by
  by_cases hm : ∃ j, (s.sess j).mtx ≠ none
  · obtain ⟨j, hj⟩ := hm
    cases hk : (s.sess j).mtx with
    | none => exact absurd hk hj
    | some k =>
      cases k with
      | req => exact ⟨.reqServe j, rfl, by simp [step, hk]⟩
      | del => exact ⟨.delEnd j, rfl, by simp [step, hk]⟩
      | cb =>
        have := ((h.ok j).c).mpr hk
        exact ⟨.cbEnd j, rfl, by simp [step, hk, this]⟩
  · have hm' : ∀ j, (s.sess j).mtx = none := by
      intro j
      cases hk : (s.sess j).mtx with
      | none => rfl
      | some k => exact absurd ⟨j, by simp [hk]⟩ hm
    cases ht : s.tbl with
    | some p =>
      obtain ⟨j, k⟩ := p
      cases k with
      | req => exact ⟨.reqMtx j, rfl, by simp [step, ht, hm' j]⟩
      | del => exact absurd ht (h.ok j).k
      | cb =>
        have := ((h.ok j).g).mp ht
        exact ⟨.cbMtx j, rfl, by simp [step, ht, hm' j, this]⟩
    | none =>
      rcases hb with hb | ⟨j, hb⟩
      · exact absurd ht hb
      · unfold Sess.busy at hb
        rcases hb with hb | hb | hb | hb | hb | hb | hb | hb
        · refine ⟨.reqLock j, rfl, ?_⟩
          have : (s.sess j).nR1 ≠ 0 := by omega
          simp only [step, ht, this, ne_eq, not_true_eq_false, or_self, if_false]
          split
          · split <;> simp
          · simp
        · refine ⟨.delLock j, rfl, ?_⟩
          have : (s.sess j).nD1 ≠ 0 := by omega
          simp only [step, ht, this, ne_eq, not_true_eq_false, or_self, if_false]
          split <;> simp
        · refine ⟨.delMtx j, rfl, ?_⟩
          have : (s.sess j).nD3 ≠ 0 := by omega
          simp [step, this, hm' j]
        · exact absurd (hm' j) hb
        · refine ⟨.cbLock j, rfl, ?_⟩
          simp only [step, ht, hb, ne_eq, not_true_eq_false, or_self, if_false]
          split <;> simp
        · have := ((h.ok j).g).mpr hb
          rw [ht] at this; cases this
        · have := ((h.ok j).c).mp hb
          rw [hm' j] at this; cases this
        · exact ⟨.cbClean j, rfl, by simp [step, hb]⟩

end Ldlm.RestConc
