// Codec stream of the correspondence check (C17, and the file channel of C08–C10):
// the real store.Write / store.Read against the Lean model M0 through `driver codec`.
package codec

import (
	"bytes"
	"encoding/hex"
	"fmt"
	"os"
	"os/exec"
	"path/filepath"
	"runtime/metrics"
	"sort"
	"strconv"
	"strings"
	"testing"
	"time"

	cl "github.com/imoore76/ldlm/server/clientlock"
	"github.com/imoore76/ldlm/server/session/store"

	"verif/harness/common"
)

type smap = map[string][]cl.Lock

func canonMap(m smap) string {
	keys := []string{}
	for k := range m {
		keys = append(keys, hex.EncodeToString([]byte(k)))
	}
	sort.Strings(keys)
	parts := []string{}
	for _, hk := range keys {
		k, _ := hex.DecodeString(hk)
		hs := []string{}
		for _, l := range m[string(k)] {
			hs = append(hs, fmt.Sprintf("%s/%s/%d", hex.EncodeToString([]byte(l.Name())), hex.EncodeToString([]byte(l.Key())), l.Size()))
		}
		parts = append(parts, hk+"="+strings.Join(hs, ","))
	}
	return strings.Join(parts, ";")
}

func hexLine(b []byte) string {
	if len(b) == 0 {
		return "-"
	}
	return hex.EncodeToString(b)
}

// goDecode runs the real store.Read on a file holding b. It returns the outcome class
// ("ok <canon>" | "err" | "panic <msg>") and the bytes allocated while decoding.
func goDecode(dir string, b []byte) (out string, alloc uint64) {
	p := filepath.Join(dir, "dec.state")
	if err := os.WriteFile(p, b, 0o644); err != nil {
		panic(err)
	}
	st, err := store.New(p)
	if err != nil {
		panic(err)
	}
	defer st.Close()
	a0 := allocBytes()
	defer func() {
		alloc = allocBytes() - a0
		if r := recover(); r != nil {
			out = fmt.Sprintf("panic %v", r)
		}
	}()
	m, err := st.Read()
	if err != nil {
		return "err", 0
	}
	return "ok " + canonMap(m), 0
}

var allocSample = []metrics.Sample{{Name: "/gc/heap/allocs:bytes"}}

// allocBytes is the cumulative number of heap bytes allocated by this process (the decoder runs
// on the only busy goroutine, so a difference of two readings is what the decode asked for).
func allocBytes() uint64 {
	metrics.Read(allocSample)
	return allocSample[0].Value.Uint64()
}

// classify a Go panic message into the model's panic kinds
func panicKind(msg string, buflen int) string {
	switch {
	case strings.Contains(msg, "makeslice"):
		return "makeslice"
	case strings.Contains(msg, "slice bounds out of range [:"):
		return "negLength"
	case strings.Contains(msg, "slice bounds out of range ["):
		// [a:b]: b == len(buf) is `buf[n:]` past the end; otherwise the high bound n+s came out below n
		i := strings.LastIndex(msg, ":")
		j := strings.LastIndex(msg, "]")
		if i > 0 && j > i {
			if hi, err := strconv.Atoi(msg[i+1 : j]); err == nil && hi == buflen {
				return "sliceStart"
			}
		}
		return "negLength"
	}
	return "other:" + msg
}

var strPool = []string{"", "a", "ab", "b", "é✓", "s1", "lock/1", "\x00", "\x01\x01\x01\x01", strings.Repeat("x", 127),
	strings.Repeat("y", 128), strings.Repeat("z", 300), strings.Repeat("w", 16384)}
// boundary values of the usual integer encodings (7-bit groups, zig-zag, byte widths)
var sizePool = []int32{0, 1, 2, 3, -1, 2147483647, -2147483648, 300, 65536, 16777216,
	63, 64, 100, 127, 128, 255, 256, 8191, 8192, 16383, 16384, 32767, 32768, 1 << 20, 1<<21 - 1, 1 << 21, 1 << 27, 1<<28 - 1, -64, -65, -128, -129}

func randStr(r *common.Rng) string {
	if r.Chance(70) {
		return common.Pick(r, strPool[:9])
	}
	if r.Chance(70) {
		b := make([]byte, 1+r.Intn(10))
		for i := range b {
			b[i] = byte(r.Intn(256))
		}
		return string(b)
	}
	return common.Pick(r, strPool)
}

func randMap(r *common.Rng, maxSess, maxHolds int) smap {
	m := smap{}
	for s := r.Intn(maxSess + 1); s > 0; s-- {
		ls := []cl.Lock{}
		for k := r.Intn(maxHolds + 1); k > 0; k-- {
			ls = append(ls, cl.New(randStr(r), randStr(r), common.Pick(r, sizePool)))
		}
		m[randStr(r)] = ls
	}
	return m
}

type caseRec struct {
	kind  string
	bytes []byte
	want  string // canonical map a round trip must yield ("" for damaged inputs)
	seq   int    // index in a rewrite sequence
}

func TestCodec(t *testing.T) {
	res := common.NewResult("codec")
	res.Rule = "round trip: maps generated from a pool of edge-case strings/sizes (plus tables with one string of 16383 / 16385 / 20000 / 70000 bytes as name, key or session id), written through one store handle in sequences of 1-6 rewrites; damaged: every truncation and 6 single-byte corruptions at every position of valid encodings, plus random byte strings. distinct = distinct file images; non-trivial = image not empty and (for damaged inputs) different from every valid encoding generated"
	defer func() {
		if err := res.Write(); err != nil {
			t.Fatal(err)
		}
	}()
	rng := common.NewRng(common.Seed())
	dir := common.TempDir()
	defer os.RemoveAll(dir)

	nMaps, nCorruptBase, nRandom, maxChild := 400, 25, 3000, 6
	if common.Thorough() {
		nMaps, nCorruptBase, nRandom, maxChild = 3000, 200, 40000, 40
	}

	var cases []caseRec
	valid := map[string]bool{}

	// ---- A. rewrite sequences on one handle, file read back through a second handle
	writeSeq := func(ms []smap) {
		p := filepath.Join(dir, fmt.Sprintf("w%d.state", len(cases)))
		st, err := store.New(p)
		if err != nil {
			t.Fatal(err)
		}
		defer func() { st.Close() }()
		defer os.Remove(p)
		// a handle opened BEFORE the rewrites (another process looking at the state file, a test helper):
		// what it reads after each rewrite is what was written, too
		early, _ := store.New(p)
		if early != nil {
			defer early.Close()
		}
		for i, m := range ms {
			// a restart between two rewrites: the next write goes through a freshly opened handle
			// (sometimes after a Read, as server.New does)
			if i > 0 && rng.Chance(35) {
				st.Close()
				st, err = store.New(p)
				if err != nil {
					t.Fatal(err)
				}
				res.Count("rewrite-after-reopen")
				if rng.Chance(50) {
					st.Read()
				}
			}
			wp := ""
			func() {
				defer func() {
					if r := recover(); r != nil {
						wp = fmt.Sprint(r)
					}
				}()
				if err := st.Write(m); err != nil {
					wp = "error: " + err.Error()
				}
			}()
			if wp != "" {
				res.Find(common.Finding{Kind: "violation", Property: "C17", Signature: "codec:write-failed",
					What:   fmt.Sprintf("store.Write #%d of a sequence failed on a table the server can hold: %s", i+1, wp),
					Replay: map[string]any{"sequence": seqReplay(ms[:i+1])}})
				return
			}
			b, err := os.ReadFile(p)
			if err != nil {
				t.Fatal(err)
			}
			valid[string(b)] = true
			// the model decoder works on association lists and appends (quadratic in the number of sessions and of
			// holds): tables of thousands of sessions or holds are checked by the write/read-back monitor below
			// only, and counted
			nholds := 0
			for _, ls := range m {
				nholds += len(ls)
			}
			if len(m) <= 2100 && nholds <= 3000 {
				cases = append(cases, caseRec{kind: "valid", bytes: b, want: canonMap(m), seq: i})
			} else {
				res.Count("written-file-not-sent-to-the-model:more-than-2100-sessions-or-3000-holds")
			}
			// monitor (model independent): a second handle reads back an equal map. A file whose counts
			// and lengths do not fit its size is read in a memory-limited child: store.Read may ask for
			// terabytes on it (K6), which would end this process
			if !fitsItsSize(b) {
				res.Count("written-file-read-in-child")
				out := childDecode(t, dir, b)
				if out != "ok "+canonMap(m) {
					res.Find(common.Finding{Kind: "violation", Property: "C17", Signature: "codec:roundtrip",
						What:   fmt.Sprintf("store.Read after store.Write #%d of a sequence does not return the written map: %s", i+1, out),
						Replay: map[string]any{"sequence": seqReplay(ms[:i+1]), "read_back": out, "file_hex": hex.EncodeToString(b)}})
				}
				return
			}
			if early != nil && fitsItsSize(b) {
				var eg smap
				var eerr error
				ep := ""
				func() {
					defer func() {
						if r := recover(); r != nil {
							ep = fmt.Sprint("panic ", r)
						}
					}()
					eg, eerr = early.Read()
				}()
				if eg == nil && eerr == nil {
					eg = smap{}
				}
				if ep != "" || eerr != nil || canonMap(eg) != canonMap(m) {
					res.Find(common.Finding{Kind: "violation", Property: "C17", Signature: "codec:roundtrip:earlier-handle",
						What:   fmt.Sprintf("store.Read through a handle opened before the rewrites does not return what store.Write #%d of the sequence wrote (err=%v %s)", i+1, eerr, ep),
						Replay: map[string]any{"sequence": seqReplay(ms[:i+1]), "read_back": canonMap(eg), "file_hex": hex.EncodeToString(b)}})
					early.Close()
					early = nil
				}
			}
			var got smap
			rp := ""
			func() {
				defer func() {
					if r := recover(); r != nil {
						rp = fmt.Sprint("panic ", r)
					}
				}()
				st2, _ := store.New(p)
				defer st2.Close()
				got, err = st2.Read()
			}()
			if got == nil && err == nil {
				got = smap{}
			}
			if rp != "" || err != nil || canonMap(got) != canonMap(m) {
				res.Find(common.Finding{Kind: "violation", Property: "C17", Signature: "codec:roundtrip",
					What:   fmt.Sprintf("store.Read after store.Write #%d of a sequence does not return the written map (err=%v %s)", i+1, err, rp),
					Replay: map[string]any{"sequence": seqReplay(ms[:i+1]), "read_back": canonMap(got), "file_hex": hex.EncodeToString(b)}})
				if rp != "" {
					return
				}
			}
		}
	}
	for i := 0; i < nMaps; i++ {
		n := 1
		if rng.Chance(40) {
			n = 1 + rng.Intn(6)
		}
		ms := make([]smap, n)
		for j := range ms {
			ms[j] = randMap(rng, 4, 4)
		}
		res.Count(fmt.Sprintf("rewrite-sequence-length:%d", n))
		writeSeq(ms)
	}
	// large tables (the server holds hundreds of locks): files beyond store.Read's 512-byte minimum buffer
	nLarge := 6
	if common.Thorough() {
		nLarge = 40
	}
	for i := 0; i < nLarge; i++ {
		big := smap{}
		for s := 1 + rng.Intn(6); s > 0; s-- {
			ls := []cl.Lock{}
			for k := 8 + rng.Intn(40); k > 0; k-- {
				ls = append(ls, cl.New(fmt.Sprintf("lock-%d", rng.Intn(1000)), fmt.Sprintf("%08x-key", rng.Intn(1<<30)), int32(1+rng.Intn(3))))
			}
			big[fmt.Sprintf("session-%d-%d", i, s)] = ls
		}
		res.Count("large-table")
		writeSeq([]smap{big})
	}
	// wide tables: the number of sessions (connected clients, holding or not) and of holds per session around
	// the boundaries of the one- and two-byte count prefixes, each written alone and as one rewrite sequence
	// that grows and shrinks across them on the same file
	wide := func(nSess, nHolds int) smap {
		m := smap{}
		for s := 0; s < nSess; s++ {
			ls := []cl.Lock{}
			if s == 0 {
				for k := 0; k < nHolds; k++ {
					ls = append(ls, cl.New(fmt.Sprintf("l%d", k), fmt.Sprintf("k%d", k), 1))
				}
			} else if s%3 == 1 {
				ls = append(ls, cl.New(fmt.Sprintf("w%d", s), "k", int32(1+s%3)))
			}
			m[fmt.Sprintf("s%05d", s)] = ls
		}
		return m
	}
	counts := []int{63, 64, 65, 100, 127, 128, 129, 200}
	if common.Thorough() {
		counts = append(counts, 8191, 8192, 16383, 16384, 16385)
	}
	var across []smap
	for _, n := range counts {
		res.Count("wide-table")
		writeSeq([]smap{wide(n, 1)})
		writeSeq([]smap{wide(2, n)})
		if n <= 200 {
			across = append(across, wide(n, 1))
		}
	}
	for i := len(across) - 2; i >= 0; i -= 2 {
		across = append(across, across[i])
	}
	res.Count("wide-table-rewrite-sequence")
	writeSeq(across)
	// long strings (the server accepts any non-empty name, gRPC messages go up to 4 MiB): lengths around
	// and beyond the two-byte / three-byte length prefixes, as lock name, as key and as session id
	for _, n := range []int{16383, 16385, 20000, 70000} {
		long := strings.Repeat("n", n)
		for pos := 0; pos < 3; pos++ {
			m := smap{"s": {cl.New("a", "k", 1)}}
			switch pos {
			case 0:
				m["s"] = []cl.Lock{cl.New(long, "k", 1), cl.New("b", "k2", 2)}
			case 1:
				m["s"] = []cl.Lock{cl.New("a", long, 1)}
			case 2:
				m = smap{long: {cl.New("a", "k", 1)}, "t": {}}
			}
			res.Count("long-string")
			writeSeq([]smap{m})
		}
	}
	// checkpoint: what the write/read-back monitor found survives a decoder that ends the process
	// (out of memory is not recoverable) in the parts below
	res.Note("checkpoint written after the write/read-back part")
	if err := res.Write(); err != nil {
		t.Fatal(err)
	}
	if common.Thorough() {
		// exhaustive small maps: up to 2 sessions × up to 2 holds over a 3-string alphabet, 2 sizes
		al := []string{"", "a", "ab"}
		var holds []cl.Lock
		for _, n := range al {
			for _, k := range al[:2] {
				for _, s := range []int32{1, -1} {
					holds = append(holds, cl.New(n, k, s))
				}
			}
		}
		var lists [][]cl.Lock
		lists = append(lists, []cl.Lock{})
		for _, h := range holds {
			lists = append(lists, []cl.Lock{h})
			for _, h2 := range holds {
				lists = append(lists, []cl.Lock{h, h2})
			}
		}
		cnt := 0
		for _, l1 := range lists {
			writeSeq([]smap{{"s": l1}})
			cnt++
		}
		for i, l1 := range lists {
			for j, l2 := range lists {
				if (i*7+j)%5 == 0 { // a fifth of the two-session pairs; all one-session maps above
					writeSeq([]smap{{"": l1, "t": l2}})
					cnt++
				}
			}
		}
		res.CountN("exhaustive-small-maps", cnt)
	}

	// ---- B. damaged inputs
	nv := len(cases)
	step := nv / nCorruptBase
	if step == 0 {
		step = 1
	}
	for i := 0; i < nv; i++ {
		// large files: the tail (every cut of 1-24 bytes, corruptions of the last 12 bytes) and a few
		// random positions; every position would be too many
		b := cases[i].bytes
		if len(b) < 500 || cases[i].kind != "valid" || len(b) > 40000 && i%3 != 0 {
			continue
		}
		res.Count("large-file-damaged")
		pos := []int{}
		for k := 1; k <= 24; k++ {
			cases = append(cases, caseRec{kind: "truncated", bytes: b[:len(b)-k]})
		}
		for k := 1; k <= 12; k++ {
			pos = append(pos, len(b)-k)
		}
		for k := 0; k < 12; k++ {
			j := rng.Intn(len(b))
			pos = append(pos, j)
			cases = append(cases, caseRec{kind: "truncated", bytes: b[:j]})
		}
		for _, j := range pos {
			for _, v := range []byte{0x00, 0x01, 0xff, b[j] + 1} {
				if v == b[j] {
					continue
				}
				c := bytes.Clone(b)
				c[j] = v
				cases = append(cases, caseRec{kind: "corrupted", bytes: c})
			}
		}
		cases = append(cases, caseRec{kind: "extended", bytes: append(bytes.Clone(b), 0x01)})
	}
	for i := 0; i < nv; i += step {
		b := cases[i].bytes
		if len(b) > 400 {
			continue
		}
		for j := 0; j < len(b); j++ {
			cases = append(cases, caseRec{kind: "truncated", bytes: b[:j]})
			for _, v := range []byte{0x00, 0x01, 0x7f, 0x80, 0xff, b[j] + 1} {
				if v == b[j] {
					continue
				}
				c := bytes.Clone(b)
				c[j] = v
				cases = append(cases, caseRec{kind: "corrupted", bytes: c})
			}
		}
		cases = append(cases, caseRec{kind: "extended", bytes: append(bytes.Clone(b), 0x01)},
			caseRec{kind: "extended", bytes: append(bytes.Clone(b), b...)})
	}
	for i := 0; i < nRandom; i++ {
		b := make([]byte, rng.Intn(40))
		for j := range b {
			b[j] = []byte{0, 1, 2, 3, 4, 0x7f, 0x80, 0x81, 0xff, byte(rng.Intn(256))}[rng.Intn(10)]
		}
		cases = append(cases, caseRec{kind: "random", bytes: b})
	}
	// the recorded witnesses of the known findings run on every invocation
	for _, w := range []string{"0180808080808080808001", "020000", "010080808080808080808001", "0100808080808020", "0009090909"} {
		b, _ := hex.DecodeString(w)
		cases = append(cases, caseRec{kind: "witness", bytes: b})
	}

	// ---- model predictions
	lines := make([]string, len(cases))
	for i, c := range cases {
		lines[i] = hexLine(c.bytes)
	}
	pred, err := common.LeanBatch([]string{"codec"}, lines)
	if err != nil {
		t.Fatal(err)
	}

	children := 0
	for i, c := range cases {
		sp := strings.SplitN(pred[i], " ", 3)
		peak, _ := strconv.ParseUint(sp[0], 10, 64)
		cls := sp[1]
		rest := ""
		if len(sp) > 2 {
			rest = sp[2]
		}
		nontrivial := len(c.bytes) > 0 && (c.kind == "valid" || !valid[string(c.bytes)])
		res.Eval(string(c.bytes), nontrivial)
		res.Count("input:" + c.kind)
		res.Count("model-outcome:" + cls)
		if i%997 == 0 || c.kind == "witness" {
			res.Sample(map[string]any{"kind": c.kind, "file_hex": hexLine(c.bytes), "model": pred[i]})
		}
		replay := func(impl string) map[string]any {
			return map[string]any{"kind": c.kind, "file_hex": hexLine(c.bytes), "model": pred[i], "impl": impl}
		}
		budget := uint64(1<<20) + 64*uint64(len(c.bytes))

		if c.kind == "valid" {
			// correspondence on valid files: the model decodes the real bytes to the written map and
			// re-encodes them byte for byte
			wantLine := "ok reenc=1 " + c.want
			got := cls + " " + rest
			if len(c.bytes) == 0 {
				wantLine = "ok reenc=1 "
			}
			if strings.TrimSpace(got) != strings.TrimSpace(wantLine) {
				res.Find(common.Finding{Kind: "disagreement", Property: "C17", Signature: "codec:valid-image",
					What:   "the model does not decode / re-encode the file image the real store.Write produced",
					Replay: map[string]any{"file_hex": hexLine(c.bytes), "written": c.want, "model": pred[i], "rewrite_index": c.seq}})
			}
			continue
		}

		// damaged input: run the real decoder
		var impl string
		var alloc uint64
		if peak > 32<<20 {
			res.Count("predicted-large-allocation")
			if children >= maxChild && c.kind != "witness" {
				res.Count("predicted-large-allocation:not-run")
				continue
			}
			children++
			t0 := time.Now()
			impl = childDecode(t, dir, c.bytes)
			res.Note("child %s -> %s in %.1fs", hexLine(c.bytes), impl, time.Since(t0).Seconds())
			if strings.HasPrefix(impl, "oom") || strings.HasPrefix(impl, "timeout") {
				res.Find(common.Finding{Kind: "violation", Property: "C17", Signature: "codec:overalloc",
					What:   fmt.Sprintf("store.Read on a %d-byte file: %s in a child limited to 1 GiB (model predicts a %d-byte allocation request)", len(c.bytes), impl, peak),
					Replay: withAgree(replay(impl), true)})
				continue
			}
			// the child survived: compare the class below without an allocation measurement
		} else {
			impl, alloc = goDecode(dir, c.bytes)
		}
		implCls := strings.SplitN(impl, " ", 2)[0]
		modelLine := cls
		if cls == "ok" {
			modelLine = "ok " + strings.TrimPrefix(rest, "reenc=1 ")
			modelLine = "ok " + strings.TrimPrefix(strings.TrimPrefix(modelLine, "ok "), "reenc=0 ")
		}
		agree := true
		switch {
		case implCls == "panic":
			kind := panicKind(strings.TrimPrefix(impl, "panic "), len(c.bytes))
			agree = cls == "panic" && rest == kind
			res.Find(common.Finding{Kind: "violation", Property: "C17", Signature: "codec:panic:" + kind,
				What:   fmt.Sprintf("store.Read panics on a %d-byte file: %s", len(c.bytes), strings.TrimPrefix(impl, "panic ")),
				Replay: withAgree(replay(impl), agree)})
		case strings.TrimSpace(impl) != strings.TrimSpace(modelLine):
			agree = false
		}
		if !agree {
			res.Find(common.Finding{Kind: "disagreement", Property: "C17", Signature: "codec:decode-outcome",
				What: "model and store.Read decode the same bytes differently", Replay: replay(impl)})
		}
		// allocation out of proportion, measured on the implementation
		if alloc > budget+(4<<20) {
			res.Find(common.Finding{Kind: "violation", Property: "C17", Signature: "codec:overalloc",
				What:   fmt.Sprintf("store.Read allocated %d bytes decoding a %d-byte file", alloc, len(c.bytes)),
				Replay: withAgree(replay(impl), peak > budget)})
		} else if peak > 8*budget && peak <= 32<<20 && alloc < budget/4 {
			res.Find(common.Finding{Kind: "disagreement", Property: "C17", Signature: "codec:peak",
				What:   fmt.Sprintf("model predicts a %d-byte request, the implementation allocated %d", peak, alloc),
				Replay: replay(impl)})
		}
	}
	res.Extra["children_run"] = children
}

func withAgree(m map[string]any, agree bool) map[string]any { m["model_agrees"] = agree; return m }

func seqReplay(ms []smap) []string {
	out := []string{}
	for _, m := range ms {
		out = append(out, canonMap(m))
	}
	return out
}

// childDecode decodes b in a child process whose address space is limited, because the model
// predicts an allocation that would take this process down.
func childDecode(t *testing.T, dir string, b []byte) string {
	p := filepath.Join(dir, "child.state")
	os.WriteFile(p, b, 0o644)
	exe, _ := os.Executable()
	cmd := exec.Command("sh", "-c", "ulimit -v 1500000; exec \"$0\" -test.run '^TestCodecChild$' -test.v", exe)
	cmd.Env = append(os.Environ(), "VERIF_CODEC_CHILD="+p, "GOMAXPROCS=2", "GOGC=50")
	var out bytes.Buffer
	cmd.Stdout, cmd.Stderr = &out, &out
	done := make(chan error, 1)
	cmd.Start()
	go func() { done <- cmd.Wait() }()
	select {
	case <-done:
	case <-time.After(20 * time.Second):
		cmd.Process.Kill()
		<-done
		return "timeout"
	}
	s := out.String()
	if i := strings.Index(s, "CHILD-RESULT "); i >= 0 {
		line := s[i+len("CHILD-RESULT "):]
		if j := strings.IndexByte(line, '\n'); j >= 0 {
			line = line[:j]
		}
		return line
	}
	if strings.Contains(s, "out of memory") || strings.Contains(s, "cannot allocate") {
		return "oom (fatal error: out of memory)"
	}
	return "crash " + firstLine(s)
}

func firstLine(s string) string {
	for _, l := range strings.Split(s, "\n") {
		if strings.TrimSpace(l) != "" {
			return l
		}
	}
	return ""
}

// fitsItsSize walks the layout of a state file (uvarint counts and lengths, 4-byte sizes, 4-byte
// terminators) and reports whether every count and length fits into the bytes that follow it. It
// decides only WHERE a file is read back (in process or in a memory-limited child), never a verdict.
func fitsItsSize(b []byte) bool {
	n := 0
	uv := func() (uint64, bool) {
		var x uint64
		for i := 0; i < 10; i++ {
			if n >= len(b) {
				return 0, false
			}
			c := b[n]
			n++
			x |= uint64(c&0x7f) << (7 * uint(i))
			if c < 0x80 {
				return x, true
			}
		}
		return 0, false
	}
	skip := func(k uint64) bool {
		if k > uint64(len(b)-n) {
			return false
		}
		n += int(k)
		return true
	}
	str := func() bool {
		l, ok := uv()
		return ok && skip(l)
	}
	if len(b) == 0 {
		return true
	}
	cnt, ok := uv()
	if !ok || cnt > uint64(len(b)) {
		return false
	}
	for i := uint64(0); i < cnt; i++ {
		if !str() {
			return false
		}
		hc, ok := uv()
		if !ok || hc > uint64(len(b)) {
			return false
		}
		for j := uint64(0); j < hc; j++ {
			if !str() || !str() || !skip(4) {
				return false
			}
		}
		if !skip(4) {
			return false
		}
	}
	return skip(4) && n == len(b)
}

func TestCodecChild(t *testing.T) {
	p := os.Getenv("VERIF_CODEC_CHILD")
	if p == "" {
		t.Skip()
	}
	b, _ := os.ReadFile(p)
	out, _ := goDecode(filepath.Dir(p), b)
	fmt.Printf("CHILD-RESULT %s\n", out)
}
