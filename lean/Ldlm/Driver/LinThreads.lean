import Ldlm.Model.Threads
import Ldlm.Driver.Util
/-!
`driver linthreads`: validation of M1t (the calls of the lock table as threads over M1's critical
sections) against the instrumented server.  Input: the Lock / TryLock / Unlock calls on ONE lock
name that the threads of a small concurrent program made, as invocation / return events in the
order they happened under a controlled schedule:

    hist size=<n> keys=<k1,k2,…|->      the lock's size and the keys that hold it at the start
    inv <id> <kind> <key>               kind: trylock | lock | unlock; key: label of the key the call presents / is given
    ret <id> <class>                    1 = true; 0 = false; n = false, lock does not exist;
                                        c = gave up (wait timeout, cancelled, shut down); r = refused (size error)
    end

A history is accepted when M1t has a schedule in which every call is invoked at its `inv`, takes its
steps (`next`, `giveUp`, `refuse`) between its `inv` and its `ret`, and returns the class observed:
`0` only through the critical sections (never by giving up), `c` only by giving up, `r` only by being
refused before the lock object is reached.  Output per history: `ok` or `reject <event>`.
-/
namespace Ldlm.Driver.ThreadsLin
open Ldlm Ldlm.Table Ldlm.Threads

structure TCfg where
  st : TSt
  gave : List Nat
  refd : List Nat
  done : List (Nat × Bool)
deriving DecidableEq, Repr

def lockName : Str := [120]

def rets : List Ev → List (Nat × Bool)
  | [] => []
  | .ret t ok :: es => (t, ok) :: rets es
  | _ :: es => rets es

def expand (c : TCfg) : List TCfg :=
  c.st.ths.flatMap fun (t, _) =>
    let a := match tstep lockName c.st (.next t) with
      | some (s', ev) => [{ c with st := s', done := c.done ++ rets ev }]
      | none => []
    let b := match tstep lockName c.st (.giveUp t) with
      | some (s', ev) => [{ c with st := s', done := c.done ++ rets ev, gave := t :: c.gave }]
      | none => []
    let r := match tstep lockName c.st (.refuse t) with
      | some (s', ev) => [{ c with st := s', done := c.done ++ rets ev, refd := t :: c.refd }]
      | none => []
    a ++ b ++ r

def addNew (acc : List TCfg) (cs : List TCfg) : List TCfg × List TCfg :=
  cs.foldl (fun (p : List TCfg × List TCfg) c => if p.1.contains c then p else (p.1 ++ [c], p.2 ++ [c])) (acc, [])

def closure : Nat → List TCfg → List TCfg → List TCfg
  | 0, acc, _ => acc
  | _, acc, [] => acc
  | fuel+1, acc, frontier =>
    let (acc', fresh) := addNew acc (frontier.flatMap expand)
    closure fuel acc' fresh

def keyOf (s : String) : Str := s.toList.map Char.toNat

def parseCall (kind key : String) : Option Call :=
  if kind = "trylock" then some (.tryLock (keyOf key))
  else if kind = "lock" then some (.lock (keyOf key))
  else if kind = "unlock" then some (.unlock (keyOf key)) else none

def classOK (c : TCfg) (id : Nat) (cls : String) : Bool :=
  c.done.any fun d => d.1 = id ∧
    (if cls = "1" then d.2 = true
     else if cls = "0" then d.2 = false ∧ ¬ c.gave.contains id ∧ ¬ c.refd.contains id
     else if cls = "n" then d.2 = false ∧ ¬ c.gave.contains id
     else if cls = "c" then d.2 = false ∧ c.gave.contains id
     else if cls = "r" then d.2 = false ∧ c.refd.contains id
     else false)

def event (cfgs : List TCfg) (ws : List String) : Option (List TCfg) :=
  match ws with
  | ["inv", id, kind, key] =>
    match id.toNat?, parseCall kind key with
    | some id, some call =>
      some (cfgs.filterMap fun c => (tstep lockName c.st (.invoke id call)).map fun r => { c with st := r.1 })
    | _, _ => none
  | ["ret", id, cls] =>
    match id.toNat? with
    | none => none
    | some id =>
      let all := closure 64 cfgs cfgs
      some ((all.filter fun c => classOK c id cls).map fun c =>
        { c with done := c.done.filter (·.1 ≠ id), gave := c.gave.filter (· ≠ id), refd := c.refd.filter (· ≠ id) })
  | _ => none

def parseHeader (ws : List String) : Option TCfg :=
  match ws with
  | ["hist", sz, ks] =>
    match (sz.drop 5).toString.toNat? with
    | some size =>
      let kl := (ks.drop 5).toString
      let keys := if kl = "-" then [] else (kl.splitOn ",").map keyOf
      some { st := ⟨{ size := size, cur := keys.length, q := [], keys := keys, acq := [], plain := 0 }, []⟩, gave := [], refd := [], done := [] }
    | none => none
  | _ => none

partial def hist (h : IO.FS.Stream) (cfgs : List TCfg) (n : Nat) (bad : Option String) : IO String := do
  let line ← h.getLine
  if line.isEmpty then return "eof"
  let ws := (line.trimAscii.toString.splitOn " ").filter (· ≠ "")
  match ws with
  | ["end"] =>
    match bad with
    | some b => return b
    | none => return "ok"
  | _ =>
    match bad with
    | some _ => hist h cfgs (n + 1) bad
    | none =>
      match event cfgs ws with
      | none => hist h cfgs (n + 1) (some s!"reject {n}: unknown event {line.trimAscii.toString}")
      | some [] => hist h [] (n + 1) (some s!"reject {n}: after `{line.trimAscii.toString}` no schedule of the model's threads produces the calls so far")
      | some cs => hist h cs (n + 1) none

partial def linThreadsMain : IO Unit := do
  let h ← IO.getStdin
  let out ← IO.getStdout
  let line ← h.getLine
  if line.isEmpty then return ()
  let ws := (line.trimAscii.toString.splitOn " ").filter (· ≠ "")
  match parseHeader ws with
  | some c0 =>
    let r ← hist h [c0] 0 none
    out.putStrLn r; out.flush
    linThreadsMain
  | none =>
    out.putStrLn "bad-hist"; out.flush; linThreadsMain

end Ldlm.Driver.ThreadsLin
