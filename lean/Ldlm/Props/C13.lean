import Ldlm.Proofs.Table
import Ldlm.Proofs.CoreMain
import Ldlm.Proofs.CoreGc
/-!
C13 — Garbage collection of idle locks is invisible to clients.

Interleaved (M1, every schedule, GC steps anywhere, any idle-clock reading):
* `gc_never_removes_busy` — a GC step that deletes a lock object deletes one that nobody holds, nobody
                            is acquiring, nobody waits on and no in-flight call has fetched (the
                            reference count added by the `fix:` for D8), and whose semaphore is free.
* `gc_frame`              — a GC step on one name leaves every other lock object exactly as it was.
* `gc_keeps_invariant`    — the table invariant (capacity, conservation, no lost wake-up) holds in
                            every state of every schedule with GC steps interleaved: GC cannot make
                            a later request misbehave.  The model has no panic branch because with
                            the reference count no call ever holds a deleted object: `gc_never_removes_busy`
                            is exactly the statement that the code's "Tried to lock deleted lock" panic
                            and its `deleted` checks are unreachable.
Sequential (M2):
* `gc_pass_keeps_held`    — a GC pass removes no record that has a key (nor, by C01's
                            `waiter_implies_full`, one that is waited on), for any min-idle.
* `gc_only_effect_is_recreation` — after a GC pass every lock that still has a record has it unchanged;
                            a removed record was unheld and idle longer than min-idle: the next
                            creating request may give it another size.
Simulation (M2, every history, every GC interval / minimum idle time, explicit passes anywhere):
* `gc_step_invisible`     — lock step of the server and the same server whose collector deletes nothing
                            (`noGc`): related states (`G`: equal up to records that have no key and no
                            waiter) give the same answer, events and tie flag to every operation and stay
                            related — or the request re-creates a collected lock with another size (the
                            server without GC answers size mismatch, the server with GC grants): exactly
                            the one effect C13 allows.  The error CODE of a failing Unlock may differ (K11).
* `gc_pass_invisible`     — a collection pass (tick or explicit) keeps the two servers related.
* `gc_invisible_history`  — along every history in which the server without GC never answers size
                            mismatch, the server with GC gives the same answers, request by request.
* `gc_allows_recreation`  — the excluded case is real (witness): after a pass the name is free for another size.
Known finding K11 (stated, not hidden): a FAILING Unlock with a stale key answers InvalidLockKey
while the idle record exists and LockDoesNotExist once it is collected — `gc_changes_failing_unlock_code`.
-/
namespace Ldlm.Props.C13
open Ldlm.Table

theorem gc_never_removes_busy (s s' : St) (n : Str) (o : Obj) (h : TableInv s) (hg : AMap.get s n = some o)
    (hs : step s (.gc n) = some (s', [])) (hdel : AMap.get s' n = none) :
    o.keys = [] ∧ o.acq = [] ∧ o.q = [] ∧ o.plain = 0 ∧ o.cur = 0 :=
  gc_safe s s' n o h hg hs hdel

theorem gc_frame (s s' : St) (n n' : Str) (hs : step s (.gc n) = some (s', [])) (hne : n ≠ n') :
    AMap.get s' n' = AMap.get s n' :=
  Ldlm.Table.gc_frame s s' n n' hs hne

theorem gc_keeps_invariant (as : List Act) (s' : St) (ev : List AOp) (hr : run [] as = some (s', ev)) :
    TableInv s' :=
  run_inv as [] s' ev empty_inv hr

/-! ### sequential -/
open Ldlm.Core

variable {M : Type} {o : MapOps M} {c : Cfg}

theorem gc_pass_keeps_held (ho : o.Lawful) (s : Core.St M) (mi : Nat) (n : Core.Str) (r : LockRec)
    (hg : o.get s.locks n = some r) (hk : r.keys ≠ []) : o.get (gcPass o s mi).locks n = some r := by
  simp [gcPass, ho.get_filter, hg, Option.filter, hk]

theorem gc_only_effect_is_recreation (ho : o.Lawful) (s : Core.St M) (mi : Nat) (n : Core.Str) :
    o.get (gcPass o s mi).locks n = o.get s.locks n ∨
    (o.get (gcPass o s mi).locks n = none ∧
      ∃ r, o.get s.locks n = some r ∧ r.keys = [] ∧ s.now - r.lastAccessed > mi) := by
  simp only [gcPass, ho.get_filter]
  cases hg : o.get s.locks n with
  | none => left; rfl
  | some r =>
    simp only [Option.filter]
    by_cases hc : r.keys = [] ∧ s.now - r.lastAccessed > mi
    · right; simp [hc]
    · left; simp [hc]

/-- GC touches nothing but the lock table -/
theorem gc_pass_frame (s : Core.St M) (mi : Nat) :
    (gcPass o s mi).timers = s.timers ∧ (gcPass o s mi).sessions = s.sessions ∧
    (gcPass o s mi).file = s.file ∧ (gcPass o s mi).pending = s.pending := ⟨rfl, rfl, rfl, rfl⟩

/-! ### K11: the one extra visible effect (refutation of strict invisibility) -/
def cfg0 : Cfg := { gcInterval := 0, gcMinIdle := 0, dlt := 600 * sec, noClear := false, hasFile := true,
                    genKey := fun n => 75 :: natDigits n }
def s1 : Core.Str := [115, 49]
def pre : List Op := [.connect s1, .tryLock (some s1) [97] none none, .unlock (some s1) [97] (cfg0.genKey 0), .advance 5]

theorem gc_changes_failing_unlock_code :
    (step flatOps cfg0 (Core.run flatOps cfg0 pre) (.unlock (some s1) [97] (cfg0.genKey 0))).2.err = some .badKey ∧
    (step flatOps cfg0 (Core.run flatOps cfg0 (pre ++ [.gc 1])) (.unlock (some s1) [97] (cfg0.genKey 0))).2.err = some .noLock := by
  decide

/-! ### GC is invisible: simulation against the server whose collector deletes nothing -/

theorem gc_step_invisible (ho : o.Lawful) {s s' : Core.St M} (h : G o s s') (hr : RecInv o s) (op : Op)
    (hop : ∀ mi, op ≠ .gc mi) :
    (G o (step o c s op).1 (step (noGc o) c s' op).1 ∧ REq (step o c s op).2 (step (noGc o) c s' op).2) ∨
    (RecreatesOp o s s' op ∧ (step (noGc o) c s' op).2.err = some .sizeMismatch ∧ (step o c s op).2.ok = true) :=
  step_rel ho h hr op hop

theorem gc_pass_invisible (ho : o.Lawful) {s s' : Core.St M} (h : G o s s') (hr : RecInv o s) (mi : Nat) :
    G o (gcPass o s mi) s' :=
  gcPass_G ho h hr mi

theorem gc_invisible_history (ho : o.Lawful) (ops : List Op)
    (hno : ∀ r ∈ resps (noGc o) c (init (noGc o) c) (ops.filter (fun op => !isGcOp op)), r.err ≠ some .sizeMismatch) :
    RespsEq (respsSkip o c (init o c) ops)
      (resps (noGc o) c (init (noGc o) c) (ops.filter (fun op => !isGcOp op))) :=
  gc_invisible ho ops hno

/-- the relation's premises are met by every reachable state of the server with GC -/
theorem reachable_recInv (ho : o.Lawful) (ops : List Op) : RecInv o (Core.run o c ops) :=
  (recInv_blocks (c := c) ho).run (fun s h => recInv_restart ho s h) (recInv_init ho) ops

/-- the excluded case is real: after a pass the idle name can be created with another size -/
theorem gc_allows_recreation :
    (step (noGc flatOps) cfg0 (Core.run (noGc flatOps) cfg0 pre) (.tryLock (some s1) [97] (some 2) none)).2.err = some .sizeMismatch ∧
    (step flatOps cfg0 (Core.run flatOps cfg0 (pre ++ [.gc 1])) (.tryLock (some s1) [97] (some 2) none)).2.ok = true := by
  decide

/-- non-vacuity: a history with a GC pass between a release and a re-acquisition with the same size;
the hypothesis of `gc_invisible_history` holds and the answers are those of the server without GC -/
def hist2 : List Op := pre ++ [.gc 1, .tryLock (some s1) [97] none none, .unlock (some s1) [97] (cfg0.genKey 2)]

example : ∀ r ∈ resps (noGc flatOps) cfg0 (init (noGc flatOps) cfg0) (hist2.filter (fun op => !isGcOp op)),
    r.err ≠ some .sizeMismatch := by decide

example : (respsSkip flatOps cfg0 (init flatOps cfg0) hist2).map (fun r => (r.ok, r.err)) =
    (resps (noGc flatOps) cfg0 (init (noGc flatOps) cfg0) (hist2.filter (fun op => !isGcOp op))).map (fun r => (r.ok, r.err)) := by
  decide

end Ldlm.Props.C13
