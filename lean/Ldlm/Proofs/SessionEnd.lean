import Ldlm.Model.SessionEnd
/-! M3b: invariant of one hold of an ending session, for every schedule in which no grant of that
hold is in flight when the session entry is deleted (`Clean`). -/
namespace Ldlm.SessionEnd
open Ldlm.Lease (TimerSt Cb UPc)

/-- the grant of this hold had been answered when D1 ran (K2 excluded) -/
def Clean (s : St) : Prop := s.dirty = false

structure Inv (s : St) : Prop where
  dg     : s.d ≠ .d0 → s.g = .gdone
  armed  : s.timer = .armed → (s.held = true ∨ s.d = .d3) ∧ s.cb = .none ∧ s.g = .gdone
  fired  : s.timer = .fired → s.cb ≠ .none
  cbDone : (s.cb = .c2 ∨ s.cb = .c3) → s.held = false
  u2     : ∀ t, (t, UPc.u2) ∈ s.unl → s.held = false
  armedU0 : s.timer = .armed → ∀ t pc, (t, pc) ∈ s.unl → pc = .u0
  d3     : s.d = .d3 → s.held = false
  unbooked : (s.g = .g2 ∨ s.g = .gdone) → s.booked = false → s.d = .d0 → s.held = false ∨ s.cb = .c1
  afterD : s.d ≠ .d0 → s.booked = false
  early  : (s.g = .g0 ∨ s.g = .g1 ∨ s.g = .g2) → s.unl = [] ∧ s.cb = .none ∧ s.timer = .none
  g0     : s.g = .g0 → s.held = false ∧ s.booked = false
  g12    : (s.g = .g1 ∨ s.g = .g2) → s.held = true ∧ s.d = .d0
  g2b    : s.g = .g2 → s.booked = true
  d2h    : s.d = .d2 → s.timer = .armed → s.held = true
  skipRel : s.d = .dskip → s.held = false ∨ s.cb = .c1
  doneRel : s.d = .ddone → s.held = false
  u2f    : ∀ t, (t, UPc.u2f) ∈ s.unl → s.held = false ∨ s.cb = .c1

theorem init_inv (l : Bool) : Inv (init l) := by
  refine ⟨?_, ?_, ?_, ?_, ?_, ?_, ?_, ?_, ?_, ?_, ?_, ?_, ?_, ?_, ?_, ?_, ?_⟩ <;> simp [init]

/-- cleanliness propagates backwards along a step (the ghost flag is only ever raised) -/
theorem clean_back (s s' : St) (a : Act) (hs : step s a = some s') (hc : Clean s') : Clean s := by
  unfold Clean at *
  cases a with
  | destroyStart =>
    simp only [step] at hs
    split at hs
    · cases hs
    · simp at hs; rw [← hs] at hc; simp at hc; exact hc.1
  | grantStep => simp only [step] at hs; split at hs <;> simp at hs <;> (try rw [← hs] at hc) <;> exact hc
  | destroyStep =>
    simp only [step] at hs
    split at hs
    · split at hs <;> simp at hs <;> rw [← hs] at hc <;> exact hc
    · simp at hs; rw [← hs] at hc; exact hc
    · cases hs
  | fire => simp only [step] at hs; split at hs <;> simp at hs; rw [← hs] at hc; exact hc
  | cbStep => simp only [step] at hs; split at hs <;> simp at hs <;> rw [← hs] at hc <;> exact hc
  | startUnlock t => simp only [step] at hs; split at hs <;> simp at hs; rw [← hs] at hc; exact hc
  | unlockStep t =>
    simp only [step] at hs
    split at hs
    · cases hs
    · rename_i t0 pc _
      cases pc with
      | u0 => simp at hs; rw [← hs] at hc; exact hc
      | u1 => simp only at hs; split at hs <;> simp at hs <;> rw [← hs] at hc <;> exact hc
      | u2 => simp at hs; rw [← hs] at hc; exact hc
      | u2f => simp at hs; rw [← hs] at hc; exact hc

theorem run_clean_back : ∀ (as : List Act) (s s' : St), run s as = some s' → Clean s' → Clean s := by
  intro as
  induction as with
  | nil => intro s s' hr hc; simp [run] at hr; rw [hr]; exact hc
  | cons a as ih =>
    intro s s' hr hc
    simp only [run] at hr
    cases hs : step s a with
    | none => simp [hs] at hr
    | some s1 =>
      simp only [hs] at hr
      exact clean_back s s1 a hs (ih s1 s' hr hc)

end Ldlm.SessionEnd

namespace Ldlm.SessionEnd
open Ldlm.Lease (TimerSt Cb UPc)

theorem mem_of_filter {l : List (Nat × UPc)} {p : Nat × UPc → Bool} {x : Nat × UPc}
    (h : x ∈ l.filter p) : x ∈ l := (List.mem_filter.mp h).1

set_option maxHeartbeats 1000000 in
theorem step_inv (s s' : St) (a : Act) (hi : Inv s) (hs : step s a = some s') (hc : Clean s') : Inv s' := by
  have hcs : Clean s := clean_back s s' a hs hc
  unfold Clean at hc hcs
  obtain ⟨hdone, harm, hfir, hcb, hu2, hau, hd3, hunb, haft, hearly, hg0, hg12, hg2b, hd2h, hskip, hdn, hu2f⟩ := hi
  cases a with
  | grantStep =>
    simp only [step] at hs
    cases hg : s.g with
    | g0 =>
      simp only [hg] at hs; simp at hs; subst hs
      have hd : s.d = .d0 := by
        cases hdv : s.d <;> first | rfl | (exfalso; have := hdone (by rw [hdv]; simp); rw [hg] at this; cases this)
      refine ⟨?_, ?_, ?_, ?_, ?_, ?_, ?_, ?_, ?_, ?_, ?_, ?_, ?_, ?_, ?_, ?_, ?_⟩ <;> intros <;> simp_all <;> (try (first | done | grind))
    | g1 =>
      simp only [hg] at hs; simp at hs; subst hs
      refine ⟨?_, ?_, ?_, ?_, ?_, ?_, ?_, ?_, ?_, ?_, ?_, ?_, ?_, ?_, ?_, ?_, ?_⟩ <;> intros <;> simp_all <;> (try (first | done | grind))
    | g2 =>
      simp only [hg] at hs; simp at hs; subst hs
      refine ⟨?_, ?_, ?_, ?_, ?_, ?_, ?_, ?_, ?_, ?_, ?_, ?_, ?_, ?_, ?_, ?_, ?_⟩ <;> intros <;> simp_all <;> (try (first | done | grind))
    | gdone => simp [hg] at hs
  | destroyStart =>
    simp only [step] at hs
    split at hs
    · cases hs
    · rename_i hd
      simp at hd
      simp at hs; subst hs
      simp at hc
      refine ⟨?_, ?_, ?_, ?_, ?_, ?_, ?_, ?_, ?_, ?_, ?_, ?_, ?_, ?_, ?_, ?_, ?_⟩ <;> intros <;> simp_all <;> (try (first | done | grind))
  | destroyStep =>
    simp only [step] at hs
    cases hdv : s.d with
    | d2 =>
      simp only [hdv] at hs
      split at hs <;> simp at hs <;> subst hs <;>
        (refine ⟨?_, ?_, ?_, ?_, ?_, ?_, ?_, ?_, ?_, ?_, ?_, ?_, ?_, ?_, ?_, ?_, ?_⟩ <;> intros <;> simp_all <;> (try (first | done | grind)))
    | d3 =>
      simp only [hdv] at hs; simp at hs; subst hs
      refine ⟨?_, ?_, ?_, ?_, ?_, ?_, ?_, ?_, ?_, ?_, ?_, ?_, ?_, ?_, ?_, ?_, ?_⟩ <;> intros <;> simp_all <;> (try (first | done | grind))
    | d0 => simp [hdv] at hs
    | dskip => simp [hdv] at hs
    | ddone => simp [hdv] at hs
  | fire =>
    simp only [step] at hs
    split at hs
    · simp at hs; subst hs
      refine ⟨?_, ?_, ?_, ?_, ?_, ?_, ?_, ?_, ?_, ?_, ?_, ?_, ?_, ?_, ?_, ?_, ?_⟩ <;> intros <;> simp_all <;> (try (first | done | grind))
    · cases hs
  | cbStep =>
    simp only [step] at hs
    cases hcbv : s.cb with
    | none => simp [hcbv] at hs
    | c1 =>
      simp only [hcbv] at hs; simp at hs; subst hs
      refine ⟨?_, ?_, ?_, ?_, ?_, ?_, ?_, ?_, ?_, ?_, ?_, ?_, ?_, ?_, ?_, ?_, ?_⟩ <;> intros <;> simp_all <;> (try (first | done | grind))
    | c2 =>
      simp only [hcbv] at hs; simp at hs; subst hs
      refine ⟨?_, ?_, ?_, ?_, ?_, ?_, ?_, ?_, ?_, ?_, ?_, ?_, ?_, ?_, ?_, ?_, ?_⟩ <;> intros <;> simp_all <;> (try (first | done | grind))
    | c3 =>
      simp only [hcbv] at hs; simp at hs; subst hs
      refine ⟨?_, ?_, ?_, ?_, ?_, ?_, ?_, ?_, ?_, ?_, ?_, ?_, ?_, ?_, ?_, ?_, ?_⟩ <;> intros <;> simp_all <;> (try (first | done | grind))
  | startUnlock t =>
    simp only [step] at hs
    split at hs
    · cases hs
    · rename_i hcond
      simp at hcond
      simp at hs; subst hs
      refine ⟨?_, ?_, ?_, ?_, ?_, ?_, ?_, ?_, ?_, ?_, ?_, ?_, ?_, ?_, ?_, ?_, ?_⟩ <;> intros <;> simp_all <;> (try (first | done | grind))
  | unlockStep t =>
    simp only [step] at hs
    split at hs
    · cases hs
    · rename_i t0 pc hfind
      have hmem := List.mem_of_find?_eq_some hfind
      have hne : s.unl ≠ [] := by intro e; rw [e] at hmem; cases hmem
      have hgd : s.g = .gdone := by
        cases hgv : s.g <;> first | rfl | (exfalso; have := hearly; simp_all)
      cases pc with
      | u0 =>
        have hk : ∀ t', (t', UPc.u2f) ∈ (if s.timer = TimerSt.fired then List.filter (fun x => !decide (x.fst = t)) s.unl ++ [(t, UPc.u2f)]
            else List.filter (fun x => !decide (x.fst = t)) s.unl ++ [(t, UPc.u1)]) → s.held = false ∨ s.cb = Cb.c1 := by
          intro t' hm
          split at hm
          · rename_i hf
            rcases List.mem_append.mp hm with h1 | h1
            · exact hu2f t' (mem_of_filter h1)
            · have := hfir hf
              cases hcbv : s.cb with
              | none => exact absurd hcbv this
              | c1 => right; rfl
              | c2 => left; exact hcb (Or.inl hcbv)
              | c3 => left; exact hcb (Or.inr hcbv)
          · rcases List.mem_append.mp hm with h1 | h1
            · exact hu2f t' (mem_of_filter h1)
            · simp at h1
        simp at hs; subst hs
        refine ⟨?_, ?_, ?_, ?_, ?_, ?_, ?_, ?_, ?_, ?_, ?_, ?_, ?_, ?_, ?_, ?_, hk⟩ <;> intros <;> simp_all <;> (try (first | done | grind))
      | u1 =>
        simp only at hs
        have hna : s.timer ≠ .armed := fun htm => by have := hau htm t0 .u1 hmem; cases this
        split at hs <;> simp at hs <;> subst hs <;>
          (refine ⟨?_, ?_, ?_, ?_, ?_, ?_, ?_, ?_, ?_, ?_, ?_, ?_, ?_, ?_, ?_, ?_, ?_⟩ <;> intros <;> simp_all <;> (try (first | done | grind)))
      | u2 =>
        simp at hs; subst hs
        have hh := hu2 t0 hmem
        refine ⟨?_, ?_, ?_, ?_, ?_, ?_, ?_, ?_, ?_, ?_, ?_, ?_, ?_, ?_, ?_, ?_, ?_⟩ <;> intros <;> simp_all <;> (try (first | done | grind))
      | u2f =>
        simp at hs; subst hs
        refine ⟨?_, ?_, ?_, ?_, ?_, ?_, ?_, ?_, ?_, ?_, ?_, ?_, ?_, ?_, ?_, ?_, ?_⟩ <;> intros <;> simp_all <;> (try (first | done | grind))

end Ldlm.SessionEnd
