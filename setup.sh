#!/bin/sh
# Build the framework from files on disk only (offline): Lean models + proofs + compiled model
# driver, then warm the Go build cache for the harness drivers.
set -e
cd "$(dirname "$0")"
export GOFLAGS=-mod=mod GOPROXY=off GOSUMDB=off GOTOOLCHAIN=local CGO_ENABLED=0
(cd lean && lake build)
cp /repo/go.sum harness/go.sum 2>/dev/null || true
(cd harness && go1.26.8 vet ./common >/dev/null 2>&1 || true; for p in $(go1.26.8 list ./... 2>/dev/null); do go1.26.8 test -count=1 -vet=off -run '^$' "$p" >/dev/null 2>&1 || true; done)
for t in tools/*/; do [ -f "$t/go.mod" ] && (cd "$t" && go1.26.8 build ./... >/dev/null 2>&1 || true); done
echo setup done
