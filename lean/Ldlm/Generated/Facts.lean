/-
  GENERATED FILE, DO NOT EDIT.
  Written by /verif/tools/facts (`go run . <repo-root> <this file>`, go/ast extractor) from the
  current working tree of the ldlm repository; ./check regenerates it on every run.
  Plain data only. Lemmas of the form `Facts.x = expected` elsewhere break when the source changes.
-/

namespace Ldlm.Facts

def grpcErrTable : List (String × String) := [
  ("server.ErrLockWaitTimeout", "LockWaitTimeout"),
  ("lock.ErrInvalidLockKey", "InvalidLockKey"),
  ("lock.ErrLockDoesNotExist", "LockDoesNotExist"),
  ("lock.ErrLockNotLocked", "NotLocked"),
  ("timermap.ErrTimerDoesNotExist", "LockDoesNotExistOrInvalidKey"),
  ("server.ErrLockDoesNotExistOrInvalidKey", "LockDoesNotExistOrInvalidKey"),
  ("lock.ErrInvalidLockSize", "InvalidLockSize"),
  ("lock.ErrLockSizeMismatch", "LockSizeMismatch")
]

def grpcErrDefault : Option String := some "Unknown"

def grpcNilIsNil : Bool := true

def clientErrTable : List (String × String) := [
  ("Unknown", "errors.New"),
  ("LockDoesNotExist", "ErrLockDoesNotExist"),
  ("InvalidLockKey", "ErrInvalidLockKey"),
  ("LockWaitTimeout", "ErrLockWaitTimeout"),
  ("NotLocked", "ErrLockNotLocked"),
  ("LockDoesNotExistOrInvalidKey", "ErrLockDoesNotExistOrInvalidKey"),
  ("LockSizeMismatch", "ErrLockSizeMismatch"),
  ("InvalidLockSize", "ErrInvalidLockSize")
]

def clientErrAliases : List (String × String) := [
  ("ErrLockDoesNotExist", "lock.ErrLockDoesNotExist"),
  ("ErrInvalidLockKey", "lock.ErrInvalidLockKey"),
  ("ErrLockWaitTimeout", "server.ErrLockWaitTimeout"),
  ("ErrLockNotLocked", "lock.ErrLockNotLocked"),
  ("ErrLockDoesNotExistOrInvalidKey", "server.ErrLockDoesNotExistOrInvalidKey"),
  ("ErrInvalidLockSize", "lock.ErrInvalidLockSize"),
  ("ErrLockSizeMismatch", "lock.ErrLockSizeMismatch")
]

def protoErrorCodes : List (String × Nat) := [
  ("Unknown", 0),
  ("LockDoesNotExist", 1),
  ("InvalidLockKey", 2),
  ("LockWaitTimeout", 3),
  ("NotLocked", 4),
  ("LockDoesNotExistOrInvalidKey", 5),
  ("LockSizeMismatch", 6),
  ("InvalidLockSize", 7)
]

def serverErrRewrites : List (String × String × String) := [
  ("Renew", "timermap.ErrTimerDoesNotExist", "ErrLockDoesNotExistOrInvalidKey")
]

def guards : List (String × String × String × String × String) := [
  ("Lock", "*lockTimeoutSeconds", "<", "0", "ErrInvalidLockTimeout"),
  ("Lock", "*waitTimeoutSeconds", "<", "0", "ErrInvalidWaitTimeout"),
  ("Lock", "name", "==", "\"\"", "ErrEmptyName"),
  ("TryLock", "*lockTimeoutSeconds", "<", "0", "ErrInvalidLockTimeout"),
  ("TryLock", "name", "==", "\"\"", "ErrEmptyName"),
  ("Renew", "lockTimeoutSeconds", "<=", "0", "ErrInvalidLockTimeout"),
  ("getLock", "size", "<=", "0", "ErrInvalidLockSize")
]

def leaseUnits : List (String × String × String) := [
  ("Lock", "*waitTimeoutSeconds", "Second"),
  ("Lock", "*lockTimeoutSeconds", "Second"),
  ("TryLock", "*lockTimeoutSeconds", "Second"),
  ("Renew", "lockTimeoutSeconds", "Second")
]

def leaseArmGuards : List (String × String × String × String) := [
  ("Lock", "*lockTimeoutSeconds", ">", "0"),
  ("TryLock", "*lockTimeoutSeconds", ">", "0")
]

def waitArmGuards : List (String × String × String × String) := [
  ("Lock", "*waitTimeoutSeconds", ">", "0")
]

def defaultSize : Option Int := some 1

def minRenewSeconds : Option Int := some 10

def retryDelaySeconds : Option Int := some 3

def renewThreshold : Option (String × Int) := some ("<=", 30)

def renewSubtract : Option Int := some 30

def retryCode : Option String := some "Unavailable"

def retryBudgetCmp : Option (String × String × String) := some ("retries", ">=", "maxRetries")

def renewMapKey : Option String := some "r.Name"

def clientPbcCalls : List (String × String × Bool) := [
  ("Lock", "Lock", true),
  ("TryLock", "TryLock", true),
  ("Unlock", "Unlock", true),
  ("Renew", "Renew", true)
]

def bodyGetTLSConfig : String := "{ useTls := false tlsConfig := &tls.Config{} if conf.TlsCert != \"\" { serverCert, err := tls.LoadX509KeyPair(conf.TlsCert, conf.TlsKey) if err != nil { return nil, fmt.Errorf(\"LoadX509KeyPair() error loading cert: %w\", err) } tlsConfig.Certificates = []tls.Certificate{serverCert} useTls = true } if conf.ClientCA != \"\" { caPem, err := os.ReadFile(conf.ClientCA) if err != nil { return nil, fmt.Errorf(\"os.ReadFile() failed to read ca cert: %w\", err) } certPool := x509.NewCertPool() if !certPool.AppendCertsFromPEM(caPem) { return nil, fmt.Errorf(\"AppendCertsFromPEM() failed to append client ca cert\") } tlsConfig.ClientCAs = certPool tlsConfig.ClientAuth = tls.RequireAndVerifyClientCert useTls = true } else if conf.ClientCertVerify { tlsConfig.ClientAuth = tls.RequireAndVerifyClientCert useTls = true } if useTls && conf.TlsCert == \"\" { return nil, fmt.Errorf(\"client TLS certificate verification requires server TLS to be configured\") } if useTls { return tlsConfig, nil } return nil, nil }"

def bodyValidatePassword : String := "{ isValid := func() bool { if h.password == \"\" { return true } auth := strings.Split(r.Header.Get(\"Authorization\"), \"Basic \") if len(auth) != 2 { return false } decoded, err := base64.StdEncoding.DecodeString(auth[1]) if err != nil { return false } password := strings.SplitN(string(decoded), \":\", 2) if len(password) != 2 { return false } if password[1] == h.password { return true } return false }() if !isValid { slog.Warn( \"Invalid password from client\", \"client_addr\", r.RemoteAddr, ) w.Header().Set(\"WWW-Authenticate\", `Basic realm=\"Restricted\"`) w.WriteHeader(http.StatusUnauthorized) } return isValid }"

def bodyServeHTTP : String := "{ if ok := h.ValidatePassword(w, r); !ok { return } if r.URL.Path == sessionPath && r.Method == http.MethodPost { h.CreateSession(w, r) return } else if r.URL.Path == sessionPath && r.Method == http.MethodDelete { h.DestroySession(w, r) return } s, ok := h.ValidateSession(w, r) if !ok { return } defer s.mtx.Unlock() h.mux.ServeHTTP(w, r.WithContext(s.ctx)) }"

def bodyAuthInterceptor : String := "{ return grpc.UnaryInterceptor( func(ctx context.Context, r interface{}, _ *grpc.UnaryServerInfo, h grpc.UnaryHandler) (interface{}, error) { md, ok := metadata.FromIncomingContext(ctx) if !ok || md[\"authorization\"] == nil { return nil, status.Errorf(codes.Unauthenticated, \"missing credentials\") } if md[\"authorization\"][0] != password { return nil, status.Errorf(codes.Unauthenticated, \"invalid credentials\") } return h(ctx, r) }, ) }"

def bodyIpcUnlock : String := "{ log.Info(\"Handling IPC Unlock request\", \"name\", req.Name, \"key\", req.Key) if req.Key == \"\" { for _, v := range i.lckSrv.Locks() { if v.Name() == req.Name { req.Key = v.Key() } } } if req.Key == \"\" { return lock.ErrLockDoesNotExist } unlocked, err := i.lckSrv.Unlock(context.Background(), req.Name, req.Key) if err != nil { return fmt.Errorf(\"failed to unlock lock: %s\", err) } *resp = UnlockResponse(unlocked) return nil }"

def bodyDestroySession : String := "{ sessionId = ctx.Value(sessionCtxKey).(string) if l.isShutdown.Load() { return } ctxLog := log.FromContextOrDefault(ctx) ctxLog.Info(\"Session ended\") locks := l.sessionMgr.DestroySession(sessionId) if l.noClearOnDisconnect || len(locks) == 0 { return } ctxLog.Info(\"Client session cleanup\", \"num_locks\", len(locks), ) for _, lk := range locks { if unlocked, err := l.lockMgr.Unlock(lk.Name(), lk.Key()); err != nil || !unlocked { ctxLog.Error( \"Error unlocking lock during client session cleanup\", \"lock\", lk.Name(), \"key\", lk.Key(), \"error\", err, ) } else { ctxLog.Info( \"Unlocked during client session cleanup\", \"lock\", lk.Name(), ) l.lockTimerMgr.Remove(lockTimerKey(lk.Name(), lk.Key())) } } return }"

def bodyTimerReset : String := "{ m.timersMtx.Lock() defer m.timersMtx.Unlock() t, ok := m.timers[key] if ok { if t.Stop() { t.Reset(timeout) return true, nil } else { return false, nil } } return false, ErrTimerDoesNotExist }"

def bodyStoreWrite : String := "{ if l.fh == nil { return nil } d := marshalLocks(sessionLocks) l.fh.Truncate(0) l.fh.Seek(0, io.SeekStart) if _, err := l.fh.Write(d); err != nil { panic(err) } l.fh.Sync() return nil }"

def bodyValidateSession : String := "{ sessionId, err := r.Cookie(sessionCookieName) if err != nil { w.Header().Add(\"Content-Type\", \"application/json\") w.WriteHeader(http.StatusUnauthorized) fmt.Fprintf(w, `{\"error\": \"session cookie not found. create a new session at %s\"}`, sessionPath) return nil, false } h.sessionsMtx.Lock() defer h.sessionsMtx.Unlock() ok, err := h.timerMgr.Reset(sessionId.Value, h.sessionExpiration) if !ok || err != nil { w.Header().Add(\"Content-Type\", \"application/json\") w.WriteHeader(http.StatusUnauthorized) fmt.Fprintf(w, `{\"error\": \"session cookie invalid or expired. create a new session at %s\"}`, sessionPath) return nil, false } s := h.sessions[sessionId.Value] s.mtx.Lock() http.SetCookie(w, &http.Cookie{ Name: sessionCookieName, Value: sessionId.Value, Expires: time.Now().Add(h.sessionExpiration), Path: \"/\", }) return s, true }"

def bodyRestDestroySession : String := "{ sessionId, err := r.Cookie(sessionCookieName) if err != nil { w.WriteHeader(http.StatusInternalServerError) s, _ := json.Marshal(map[string]string{\"error\": err.Error()}) fmt.Fprint(w, string(s)) return } h.sessionsMtx.Lock() s, ok := h.sessions[sessionId.Value] if !ok { h.sessionsMtx.Unlock() w.WriteHeader(http.StatusConflict) fmt.Fprint(w, `{\"error\": \"session not found\"}`) return } h.timerMgr.Remove(sessionId.Value) delete(h.sessions, sessionId.Value) h.sessionsMtx.Unlock() s.mtx.Lock() defer s.mtx.Unlock() h.grpcSrv.HandleConn(s.ctx, &stats.ConnEnd{}) http.SetCookie(w, &http.Cookie{ Name: sessionCookieName, Value: \"\", Expires: time.Time{}, Path: \"/\", }) w.Header().Add(\"Content-Type\", \"application/json\") w.WriteHeader(http.StatusOK) fmt.Fprint(w, `{\"session_id\": \"\"}`) }"

def bodyRestCreateSession : String := "{ sessionId := strings.ReplaceAll(uuid.NewString(), \"-\", \"\") var ip string if idx := strings.LastIndex(r.RemoteAddr, \":\"); idx == -1 { ip = \"0.0.0.0\" } else { ip = r.RemoteAddr[:idx] } ctx := h.grpcSrv.TagConn(r.Context(), &stats.ConnTagInfo{ RemoteAddr: &net.TCPAddr{ IP: net.ParseIP(ip), Port: 0, }, }) cxLogger := log.FromContextOrDefault(ctx) cxLogger = cxLogger.With(\"rest_session_id\", sessionId) ctx = log.ToContext(cxLogger, ctx) h.sessionsMtx.Lock() h.sessions[sessionId] = &session{ ctx: ctx, mtx: sync.Mutex{}, } h.timerMgr.Add( sessionId, h.onTimeoutFunc(sessionId), h.sessionExpiration, ) h.sessionsMtx.Unlock() http.SetCookie(w, &http.Cookie{ Name: sessionCookieName, Value: sessionId, Expires: time.Now().Add(h.sessionExpiration), Path: \"/\", }) w.Header().Add(\"Content-Type\", \"application/json\") w.WriteHeader(http.StatusCreated) fmt.Fprintf(w, `{\"session_id\": \"%s\"}`, sessionId) }"

def bodyRestOnTimeout : String := "{ return func() { h.sessionsMtx.Lock() s, ok := h.sessions[sessionId] if !ok { h.sessionsMtx.Unlock() return } delete(h.sessions, sessionId) ctxLog := log.FromContextOrDefault(s.ctx) ctxLog.Info( \"REST session timeout\", \"rest_session_id\", sessionId, \"idle\", h.sessionExpiration, ) defer s.mtx.Unlock() s.mtx.Lock() h.sessionsMtx.Unlock() h.grpcSrv.HandleConn(s.ctx, &stats.ConnEnd{}) } }"

def bodyTimerAdd : String := "{ m.timersMtx.Lock() defer m.timersMtx.Unlock() m.timers[key] = time.AfterFunc( timeout, func() { onTimeout() m.Remove(key) }, ) }"

def bodyTimerRemove : String := "{ m.timersMtx.Lock() defer m.timersMtx.Unlock() stopped := true if _, ok := m.timers[key]; ok { stopped = m.timers[key].Stop() delete(m.timers, key) } return stopped }"

def bodyRenewerStart : String := "{ var interval int32 if r.lockTimeoutSeconds <= 30 { interval = MinRenewSeconds } else { interval = max(r.lockTimeoutSeconds-30, MinRenewSeconds) } go func() { defer close(r.done) for { t := time.NewTimer(time.Duration(interval) * time.Second) select { case <-r.client.ctx.Done(): t.Stop() return case <-r.stop: t.Stop() return case <-t.C: select { case <-r.stop: return default: } if _, err := r.client.Renew(r.name, r.key, r.lockTimeoutSeconds); err != nil { panic(\"error renewing lock \" + r.name + \" \" + err.Error()) } } } }() }"

def bodyRenewerStop : String := "{ r.stopOnce.Do(func() { close(r.stop) }) <-r.done }"

def bodyClientUnlock : String := "{ c.maybeRemoveRenewer(name) r, err := rpcWithRetry( c.maxRetries, func() (*pb.UnlockResponse, error) { return c.pbc.Unlock(c.ctx, &pb.UnlockRequest{ Name: name, Key: key, }) }, ) if err != nil { return false, err } return r.Unlocked, rpcErrorToError(r.Error) }"

def bodyClientClose : String := "{ c.renewMap.Range(func(k, v interface{}) bool { renewer := v.(*renewer) renewer.Stop() return true }) return c.conn.Close() }"

def bodyClientRenew : String := "{ r, err := rpcWithRetry( c.maxRetries, func() (*pb.LockResponse, error) { return c.pbc.Renew(c.ctx, &pb.RenewRequest{ Name: name, Key: key, LockTimeoutSeconds: lockTimeoutSeconds, }) }, ) if err != nil { return nil, err } return &Lock{Name: name, Key: r.Key, Locked: r.Locked, client: c}, rpcErrorToError(r.Error) }"

def bodyMaybeCreateRenewer : String := "{ if !r.Locked || c.noAutoRenew || lockTimeoutSeconds == 0 { return } rFresher := newRenewer(c, r.Name, r.Key, lockTimeoutSeconds) if _, loaded := c.renewMap.LoadOrStore(r.Name, rFresher); loaded { panic(\"client out of sync - lock already exists in renew map\") } }"

def bodyMaybeRemoveRenewer : String := "{ if c.noAutoRenew { return } r, ok := c.renewMap.LoadAndDelete(name) if ok { r.(*renewer).Stop() } }"

def bodyRpcWithRetry : String := "{ var retries int = 0 for { r, err := f() if err != nil { if st, ok := status.FromError(err); ok && st.Code() == codes.Unavailable { if retries >= maxRetries { return r, err } retries++ time.Sleep(time.Duration(RetryDelaySeconds) * time.Second) continue } else { return r, err } } else { return r, nil } } }"

def restRoutes : List (String × String × String) := [
  ("ldlm.LDLM.TryLock", "post", "/v1/lock"),
  ("ldlm.LDLM.Unlock", "post", "/v1/unlock"),
  ("ldlm.LDLM.Renew", "post", "/v1/renew")
]

def mainCloserOrder : List String := [
  "lockSrv.SetShuttingDown",
  "netCloser",
  "lockSrvCloser"
]

def restServeOrder : List String := [
  "ValidatePassword",
  "CreateSession",
  "DestroySession",
  "ValidateSession",
  "mux.ServeHTTP"
]

def grpcAuthInstallCond : Option String := some "sconf.Password != \"\""

def grpcServiceMethods : List String := [
  "Lock",
  "Unlock",
  "TryLock",
  "Renew"
]

def serverNewRestore : List String := [
  "lockMgr.TryLock",
  "sessionMgr.RemoveLock",
  "lockTimerMgr.Add"
]

def serverNewRestoreTimeout : Option String := some "c.DefaultLockTimeout"

def lockKeyFn : Option String := some "strconv.Itoa(len(name)) + \":\" + name + key"

def timerKeyArgs : List (String × String) := [
  ("New.Add", "lockTimerKey(lk.Name(), lk.Key())"),
  ("Lock.Add", "lockTimerKey(name, key)"),
  ("Unlock.Remove", "lockTimerKey(name, key)"),
  ("TryLock.Add", "lockTimerKey(name, key)"),
  ("Renew.Reset", "lockTimerKey(name, key)"),
  ("DestroySession.Remove", "lockTimerKey(lk.Name(), lk.Key())")
]

end Ldlm.Facts
