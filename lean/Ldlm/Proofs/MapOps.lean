import Ldlm.Model.Core
/-! Both lock-table representations satisfy the three laws `step` relies on. -/
namespace Ldlm.Core

theorem get_filter_pred (q : Str × LockRec → Bool) (m : List (Str × LockRec)) (n : Str)
    (hq : ∀ e e', e ∈ m → e' ∈ m → e.1 = e'.1 → q e = q e') :
    AMap.get (m.filter q) n =
      match AMap.get m n with | some v => if q (n, v) then some v else none | none => none := by
  induction m with
  | nil => simp
  | cons e m ih =>
    obtain ⟨a, b⟩ := e
    have hq' : ∀ e e', e ∈ m → e' ∈ m → e.1 = e'.1 → q e = q e' :=
      fun e e' h1 h2 => hq e e' (List.mem_cons_of_mem _ h1) (List.mem_cons_of_mem _ h2)
    by_cases han : a = n
    · subst han
      by_cases hqa : q (a, b) = true
      · simp [List.filter, hqa, AMap.get_cons]
      · simp only [List.filter, hqa, AMap.get_cons, if_true]
        rw [ih hq']
        cases hg : AMap.get m a with
        | none => simp [hqa]
        | some v =>
          have hm : (a, v) ∈ m := AMap.get_some_mem m a v hg
          have : q (a, v) = q (a, b) := hq (a, v) (a, b) (List.mem_cons_of_mem _ hm) (by simp) rfl
          simp [this, hqa]
    · by_cases hqa : q (a, b) = true
      · simp [List.filter, hqa, AMap.get_cons, han, ih hq']
      · simp [List.filter, hqa, AMap.get_cons, han, ih hq']

theorem get_filtVisible (p : Str → LockRec → Bool) (m : List (Str × LockRec)) (n : Str) :
    AMap.get (filtVisible p m) n = (AMap.get m n).filter (p n) := by
  unfold filtVisible
  rw [get_filter_pred]
  · cases hg : AMap.get m n with
    | none => simp
    | some v => simp [Option.filter, hg]
  · intro e e' _ _ h; simp [h]

theorem flatOps_lawful : flatOps.Lawful where
  get_empty := fun _ => rfl
  get_set := fun m n r n' => AMap.get_set m n n' r
  get_filter := fun p m n => get_filtVisible p m n

theorem shardedOps_lawful (h : Str → Nat) (n : Nat) : (shardedOps h n).Lawful where
  get_empty := by
    intro k
    simp only [shardedOps, Sharded.shard, Sharded.idx]
    cases hx : (List.replicate (max n 1) ([] : List (Str × LockRec)))[h k % (List.replicate (max n 1) ([] : List (Str × LockRec))).length]? with
    | none => simp
    | some v =>
      have := List.mem_of_getElem? hx
      simp at this
      simp [this]
  get_set := by
    intro m k r k'
    have hlt : ∀ x, m.idx h x < m.shards.length := fun x => Nat.mod_lt _ m.ne
    simp only [shardedOps, Sharded.shard, Sharded.idx, List.length_set]
    by_cases hi : h k % m.shards.length = h k' % m.shards.length
    · rw [← hi]
      have hl := hlt k
      simp only [Sharded.idx] at hl
      rw [List.getElem?_set_self hl]
      simp only [Option.getD_some]
      rw [AMap.get_set]
    · have hk : k ≠ k' := fun e => hi (by rw [e])
      simp only [hk, if_false]
      rw [List.getElem?_set_ne hi]
  get_filter := by
    intro p m k
    simp only [shardedOps, Sharded.shard, Sharded.idx, List.length_map, List.getElem?_map]
    cases hx : m.shards[h k % m.shards.length]? with
    | none => simp [Option.filter]
    | some v => simp [get_filtVisible]

end Ldlm.Core
