// Package conc is the schedule explorer of the controlled-concurrency drivers (DESIGN §5.3): a
// Program (sequential setup, a few concurrent threads, optional time advances, probes) is run on
// the instrumented real code, one fresh testing/synctest bubble and one fresh server per schedule,
// under schedules enumerated by preemption-bounded DFS or drawn PCT-style.
//
// It imports github.com/imoore76/ldlm/verifrt, which exists only through the generated overlay:
// build with `go test -overlay <dir>/overlay.json -vet=off` (see run.sh).
package conc

import (
	"fmt"
	"slices"
	"strings"
	"testing"
	"testing/synctest"
	"time"

	"verif/harness/common"

	"github.com/imoore76/ldlm/verifrt"
)

type Thread struct {
	Name string
	Run  func(ctx any)
}

type Program struct {
	Name    string
	Setup   func() any            // runs with the scheduler OFF inside the bubble; its result is passed to the others
	Threads []Thread              // started parked; scheduled by name
	Ticks   []time.Duration       // time advances the scheduler may place anywhere, each once, as pseudo-threads "~T0", "~T1", …
	OnTick  func(ctx any, i int)  // optional: called just before tick i advances the clock
	Finish  func(ctx any) Outcome // runs after quiescence with the scheduler OFF (probes, snapshot, cleanup incl. closers)
}

type Outcome struct {
	Key    string // canonical outcome string
	Detail map[string]any
}

type RunResult struct {
	Outcome  Outcome
	Trace    []string   // what ran at each step (thread name or "~T<i>"); replayable through RunSchedule
	Alts     [][]string // what could have run at each step
	Yields   int        // live yields (preemption points actually hit)
	Panics   []string   // "goroutine <name> panicked: …", incl. panics during Finish
	Blocked  []string   // threads not finished when scheduling ended (durably blocked, or parked at the step cap)
	Diverged int        // schedule entries that were not runnable when their turn came (0 on a faithful replay)
	Deadlock string     // synctest's complaint if goroutines were still blocked when the bubble ended
}

// StepCap bounds the length of one schedule.
const StepCap = 2000

// A tick sorts after every thread name, so the default policy advances time only when nothing else
// can run; ticks still unused when all threads are done are then taken in order (every schedule
// uses every tick exactly once).
func tickName(i int) string { return fmt.Sprintf("~T%d", i) }

// deflt is the default policy: keep running the last thread if it is runnable, else the first.
func deflt(runnable []string, last string) string {
	if slices.Contains(runnable, last) {
		return last
	}
	return runnable[0]
}

func run(t *testing.T, p Program, pick func(step int, runnable []string, last string) string) (res RunResult) {
	defer func() { // leftover blocked goroutines: synctest panics in the goroutine that called Test
		if r := recover(); r != nil {
			if res.Deadlock = fmt.Sprint(r); !strings.HasPrefix(res.Deadlock, "deadlock:") {
				panic(r)
			}
		}
	}()
	synctest.Test(t, func(t *testing.T) {
		verifrt.Reset(false)
		var ctx any
		if p.Setup != nil {
			ctx = p.Setup()
		}
		for _, th := range p.Threads {
			verifrt.Go(th.Name, func() { th.Run(ctx) })
		}
		ticks := map[string]time.Duration{}
		for i, d := range p.Ticks {
			ticks[tickName(i)] = d
		}
		synctest.Wait()
		verifrt.Enable()
		last := ""
		for step := 0; step < StepCap; step++ {
			r := verifrt.Runnable()
			for i := range p.Ticks {
				if _, ok := ticks[tickName(i)]; ok {
					r = append(r, tickName(i))
				}
			}
			if len(r) == 0 {
				break
			}
			last = pick(step, r, last)
			res.Trace, res.Alts = append(res.Trace, last), append(res.Alts, r)
			if d, ok := ticks[last]; ok {
				delete(ticks, last)
				if p.OnTick != nil {
					for i := range p.Ticks {
						if tickName(i) == last {
							p.OnTick(ctx, i)
						}
					}
				}
				time.Sleep(d) // the bubble's clock moves only while every goroutine, this one included, is blocked
			} else {
				verifrt.Step(last)
			}
			synctest.Wait()
		}
		res.Blocked, res.Yields = verifrt.Unfinished(), verifrt.YieldCount()
		verifrt.Disable() // releases whatever is still parked (step cap only)
		synctest.Wait()
		if p.Finish != nil {
			res.Outcome = p.Finish(ctx)
		}
		synctest.Wait()
		res.Panics = verifrt.Panics()
	})
	return
}

// RunSchedule runs p once in a fresh bubble following sched, then the default policy. An entry that
// is not runnable at its step is skipped in favour of the default policy (counted in Diverged).
func RunSchedule(t *testing.T, p Program, sched []string) RunResult {
	div := 0
	res := run(t, p, func(step int, r []string, last string) string {
		if step < len(sched) {
			if slices.Contains(r, sched[step]) {
				return sched[step]
			}
			div++
		}
		return deflt(r, last)
	})
	res.Diverged = div
	return res
}

// Preemptions counts the steps that switch away from a thread that could have continued.
func Preemptions(trace []string, alts [][]string) int {
	n := 0
	for i := 1; i < len(trace); i++ {
		if trace[i] != trace[i-1] && slices.Contains(alts[i], trace[i-1]) {
			n++
		}
	}
	return n
}

// ExploreDFS visits every schedule with at most bound preemptions (depth-first over the points
// where a run could have chosen differently), at most maxRuns of them, until visit returns false.
// It returns the number of schedules visited and whether the space was exhausted.
func ExploreDFS(t *testing.T, p Program, bound int, maxRuns int, visit func(RunResult) bool) (runs int, exhausted bool) {
	seen := map[string]bool{}
	stack := [][]string{nil}
	for len(stack) > 0 && runs < maxRuns {
		sched := stack[len(stack)-1]
		stack = stack[:len(stack)-1]
		res := RunSchedule(t, p, sched)
		key := strings.Join(res.Trace, ",")
		if seen[key] { // only possible if a run did not follow its prefix (nondeterminism)
			continue
		}
		seen[key] = true
		runs++
		if !visit(res) {
			return runs, false
		}
		pre := make([]int, len(res.Trace)+1) // pre[i] = preemptions within Trace[:i]
		for i := range res.Trace {
			pre[i+1] = pre[i]
			if i > 0 && res.Trace[i] != res.Trace[i-1] && slices.Contains(res.Alts[i], res.Trace[i-1]) {
				pre[i+1]++
			}
		}
		for step := len(sched); step < len(res.Trace); step++ {
			for _, a := range res.Alts[step] {
				if a == res.Trace[step] {
					continue
				}
				n := pre[step]
				if step > 0 && a != res.Trace[step-1] && slices.Contains(res.Alts[step], res.Trace[step-1]) {
					n++
				}
				if n <= bound {
					stack = append(stack, append(slices.Clone(res.Trace[:step]), a))
				}
			}
		}
	}
	return runs, len(stack) == 0
}

// MaxChangePoints is the largest number d of priority-change points ExploreRandom draws per run.
var MaxChangePoints = 3

// ExploreRandom visits n schedules drawn PCT-style: every thread (and tick) gets a random priority
// when it first becomes runnable, the runnable thread of highest priority runs, and at d random
// steps (d drawn from 0..MaxChangePoints, steps from the longest trace seen so far) the thread
// about to run drops below all others. Run 0 is the default schedule. Reproducible from rng; every
// result is replayable through RunSchedule(Trace).
func ExploreRandom(t *testing.T, p Program, n int, rng *common.Rng, visit func(RunResult) bool) {
	length := 0
	for i := 0; i < n; i++ {
		var res RunResult
		if i == 0 {
			res = RunSchedule(t, p, nil)
		} else {
			r := rng.Fork(uint64(i))
			d := r.Intn(MaxChangePoints + 1)
			change := map[int]int{} // step -> the low priority assigned there
			for j := 1; j <= d; j++ {
				change[r.Intn(max(length, 1))] = j
			}
			prio := map[string]int{}
			best := func(rn []string) string {
				b := rn[0]
				for _, name := range rn {
					if _, ok := prio[name]; !ok {
						prio[name] = d + 1 + r.Intn(1<<30)
					}
					if prio[name] > prio[b] {
						b = name
					}
				}
				return b
			}
			res = run(t, p, func(step int, rn []string, _ string) string {
				b := best(rn)
				if lo, ok := change[step]; ok {
					prio[b] = lo
					b = best(rn)
				}
				return b
			})
		}
		length = max(length, len(res.Trace))
		if !visit(res) {
			return
		}
	}
}

// Compress renders a trace run-length encoded ("A*3 B*1 ~T0 A*2"), for logs.
func Compress(trace []string) string {
	var b strings.Builder
	for i := 0; i < len(trace); {
		j := i
		for j < len(trace) && trace[j] == trace[i] {
			j++
		}
		if b.Len() > 0 {
			b.WriteByte(' ')
		}
		if strings.HasPrefix(trace[i], "~") {
			b.WriteString(trace[i])
		} else {
			fmt.Fprintf(&b, "%s*%d", trace[i], j-i)
		}
		i = j
	}
	return b.String()
}
