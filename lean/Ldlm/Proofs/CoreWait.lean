import Ldlm.Proofs.CoreLease
/-! Wait time-outs over M2 (C03): a blocked `Lock` is answered `LockWaitTimeout` by an advance only if its
deadline lies at or before the advance's target ("never earlier than the timeout"), and an advance leaves
no blocked call whose deadline has passed ("promptly when its wait timeout elapses"). No invariant is
needed: the statements follow from the time loop alone. -/
namespace Ldlm.Core
variable {M : Type} {o : MapOps M} {c : Cfg}

/-! ### the pending list only shrinks inside an advance, and only `abandon` answers `waitTimeout` -/

theorem pending_arm (s : St M) (n k : Str) (sid : Sid) (lt : Option Int) : (arm s n k sid lt).pending = s.pending := by
  unfold arm; split
  · split <;> rfl
  · rfl

theorem pending_book (s : St M) (sid : Sid) (n k : Str) (sz : Int) (lt : Option Int) :
    (book s sid n k sz lt).pending = s.pending := by
  unfold book; rw [pending_arm]; rfl

theorem pending_handOver (s : St M) (n : Str) (r : LockRec) : ∀ p ∈ (handOver o s n r).1.pending, p ∈ s.pending := by
  unfold handOver
  split
  · intro p hp; exact hp
  · intro p hp
    simp only at hp
    rw [pending_book] at hp
    exact (List.mem_filter.mp hp).1

theorem events_handOver (s : St M) (n : Str) (r : LockRec) :
    ∀ ev ∈ (handOver o s n r).2, ∃ q k, ev = .done q true k none := by
  unfold handOver
  split
  · intro ev h; cases h
  · intro ev h
    simp only [List.mem_singleton] at h
    exact ⟨_, _, h⟩

theorem pending_mgrUnlock (s : St M) (n k : Str) : ∀ p ∈ (mgrUnlock o s n k).1.pending, p ∈ s.pending := by
  unfold mgrUnlock
  split
  · intro p hp; exact hp
  · simp only
    split
    · exact pending_handOver _ _ _
    · intro p hp; exact hp

theorem events_mgrUnlock (s : St M) (n k : Str) :
    ∀ ev ∈ (mgrUnlock o s n k).2.2.2, ∃ q k', ev = .done q true k' none := by
  unfold mgrUnlock
  split
  · intro ev h; cases h
  · simp only
    split
    · exact events_handOver _ _ _
    · intro ev h; cases h

theorem pending_fireLease (s : St M) (tk : Str) (tm : Timer) : ∀ p ∈ (fireLease o s tk tm).1.pending, p ∈ s.pending := by
  unfold fireLease
  intro p hp
  exact pending_mgrUnlock s tm.name tm.key p hp

theorem events_fireLease (s : St M) (tk : Str) (tm : Timer) :
    ∀ ev ∈ (fireLease o s tk tm).2, ∃ q k', ev = .done q true k' none := by
  unfold fireLease
  exact events_mgrUnlock s tm.name tm.key

theorem pending_abandon (s : St M) (p0 : Pending) (e : Err) : ∀ p ∈ (abandon o s p0 e).1.pending, p ∈ s.pending := by
  unfold abandon
  intro p hp
  exact (List.mem_filter.mp hp).1

theorem pending_abandon_gone (s : St M) (p0 : Pending) (e : Err) : p0 ∉ (abandon o s p0 e).1.pending := by
  unfold abandon
  intro hp
  have := (List.mem_filter.mp hp).2
  simp at this

/-! ### minimum search over the blocked calls -/

private def wf (acc : Option (Pending × Nat)) (p : Pending) : Option (Pending × Nat) :=
  match p.deadline, acc with
  | none, _ => acc
  | some d, none => some (p, d)
  | some d, some a => if d < a.2 then some (p, d) else some a

private theorem earliestWait_eq (s : St M) : earliestWait s = s.pending.foldl wf none := rfl

private theorem wf_fold : ∀ (l : List Pending) (acc : Option (Pending × Nat)) (e : Pending × Nat),
    l.foldl wf acc = some e →
    ((e.1 ∈ l ∧ e.1.deadline = some e.2) ∨ acc = some e) ∧
    (∀ p ∈ l, ∀ d, p.deadline = some d → e.2 ≤ d) ∧ (∀ a, acc = some a → e.2 ≤ a.2) := by
  intro l
  induction l with
  | nil =>
    intro acc e h
    simp at h
    exact ⟨Or.inr h, by simp, fun a ha => by rw [h] at ha; cases ha; exact Nat.le_refl _⟩
  | cons x l ih =>
    intro acc e h
    simp only [List.foldl_cons] at h
    obtain ⟨i0, i1, i2⟩ := ih _ _ h
    cases hd : x.deadline with
    | none =>
      have hw : wf acc x = acc := by simp [wf, hd]
      rw [hw] at i0 i2
      refine ⟨?_, ?_, i2⟩
      · rcases i0 with ⟨hm, hdl⟩ | h'
        · exact Or.inl ⟨List.mem_cons_of_mem _ hm, hdl⟩
        · exact Or.inr h'
      · intro p hp d hpd
        rcases List.mem_cons.mp hp with rfl | hp
        · rw [hd] at hpd; cases hpd
        · exact i1 p hp d hpd
    | some dx =>
      cases acc with
      | none =>
        have hw : wf none x = some (x, dx) := by simp [wf, hd]
        rw [hw] at i0 i2
        have hle := i2 _ rfl
        refine ⟨?_, ?_, by intro a ha; cases ha⟩
        · rcases i0 with ⟨hm, hdl⟩ | h'
          · exact Or.inl ⟨List.mem_cons_of_mem _ hm, hdl⟩
          · cases h'; exact Or.inl ⟨by simp, hd⟩
        · intro p hp d hpd
          rcases List.mem_cons.mp hp with rfl | hp
          · rw [hd] at hpd; cases hpd; exact hle
          · exact i1 p hp d hpd
      | some a =>
        by_cases hlt : dx < a.2
        · have hw : wf (some a) x = some (x, dx) := by simp [wf, hd, hlt]
          rw [hw] at i0 i2
          have hle := i2 _ rfl
          refine ⟨?_, ?_, ?_⟩
          · rcases i0 with ⟨hm, hdl⟩ | h'
            · exact Or.inl ⟨List.mem_cons_of_mem _ hm, hdl⟩
            · cases h'; exact Or.inl ⟨by simp, hd⟩
          · intro p hp d hpd
            rcases List.mem_cons.mp hp with rfl | hp
            · rw [hd] at hpd; cases hpd; exact hle
            · exact i1 p hp d hpd
          · intro a' ha'; cases ha'; simp only at hle; omega
        · have hw : wf (some a) x = some a := by simp [wf, hd, hlt]
          rw [hw] at i0 i2
          have hle := i2 _ rfl
          refine ⟨?_, ?_, ?_⟩
          · rcases i0 with ⟨hm, hdl⟩ | h'
            · exact Or.inl ⟨List.mem_cons_of_mem _ hm, hdl⟩
            · exact Or.inr h'
          · intro p hp d hpd
            rcases List.mem_cons.mp hp with rfl | hp
            · rw [hd] at hpd; cases hpd; omega
            · exact i1 p hp d hpd
          · intro a' ha'; cases ha'; exact hle

theorem earliestWait_mem {s : St M} {e : Pending × Nat} (h : earliestWait s = some e) :
    e.1 ∈ s.pending ∧ e.1.deadline = some e.2 := by
  rw [earliestWait_eq] at h
  rcases (wf_fold _ _ _ h).1 with h' | h'
  · exact h'
  · cases h'

theorem earliestWait_le {s : St M} {e : Pending × Nat} (h : earliestWait s = some e) :
    ∀ p ∈ s.pending, ∀ d, p.deadline = some d → e.2 ≤ d := by
  rw [earliestWait_eq] at h
  exact (wf_fold _ _ _ h).2.1

private theorem wf_fold_some : ∀ (l : List Pending) (a : Pending × Nat), l.foldl wf (some a) ≠ none := by
  intro l
  induction l with
  | nil => intro a; simp
  | cons x l ih =>
    intro a
    simp only [List.foldl_cons]
    cases hd : x.deadline with
    | none => have : wf (some a) x = some a := by simp [wf, hd]
              rw [this]; exact ih a
    | some dx =>
      by_cases hlt : dx < a.2
      · have : wf (some a) x = some (x, dx) := by simp [wf, hd, hlt]
        rw [this]; exact ih _
      · have : wf (some a) x = some a := by simp [wf, hd, hlt]
        rw [this]; exact ih _

theorem earliestWait_none {s : St M} (h : earliestWait s = none) : ∀ p ∈ s.pending, p.deadline = none := by
  rw [earliestWait_eq] at h
  have : ∀ (l : List Pending), l.foldl wf none = none → ∀ p ∈ l, p.deadline = none := by
    intro l
    induction l with
    | nil => intro _ p hp; cases hp
    | cons x l ih =>
      intro hf p hp
      simp only [List.foldl_cons] at hf
      cases hd : x.deadline with
      | none =>
        have hw : wf none x = none := by simp [wf, hd]
        rw [hw] at hf
        rcases List.mem_cons.mp hp with rfl | hp
        · exact hd
        · exact ih hf p hp
      | some dx =>
        have hw : wf none x = some (x, dx) := by simp [wf, hd]
        rw [hw] at hf
        exact absurd hf (wf_fold_some _ _)
  exact this _ h

theorem minOpt3_le_mid {a g : Option Nat} {d t : Nat} (h : minOpt (minOpt a (some d)) g = some t) : t ≤ d := by
  cases a <;> cases g <;> simp [minOpt] at h <;> omega

theorem minOpt_none_right {a b : Option Nat} (h : minOpt a b = none) : b = none := by
  cases a <;> cases b <;> simp [minOpt] at h ⊢

/-! ### what an advance does to the blocked calls -/

/-- **never earlier than the timeout**: every `LockWaitTimeout` answer of an advance to `target` belongs to a
call that was blocked before the advance and whose deadline is at or before `target` -/
theorem advanceTo_wait_not_early (target : Nat) : ∀ (fuel : Nat) (s : St M) (q : Nat) (k : Str),
    Event.done q false k (some .waitTimeout) ∈ (advanceTo o c target fuel s).2.1 →
    ∃ p ∈ s.pending, p.req = q ∧ p.key = k ∧ ∃ d, p.deadline = some d ∧ d ≤ target := by
  intro fuel
  induction fuel with
  | zero => intro s q k h; simp [advanceTo] at h
  | succ f ih =>
    intro s q k h
    unfold advanceTo at h
    simp only at h
    split at h
    · cases h
    · rename_i t hmin
      split at h
      · cases h
      · rename_i hle
        have hle' : t ≤ target := by omega
        simp only at h
        split at h
        · -- a lease fires: its events are grants
          rename_i htl
          split at h
          · rename_i tk0 tm0 he
            rcases List.mem_append.mp h with h1 | h2
            · obtain ⟨q', k', e⟩ := events_fireLease (o := o) _ tk0 tm0 _ h1
              cases e
            · obtain ⟨p, hp, r⟩ := ih _ q k h2
              exact ⟨p, pending_fireLease (o := o) { s with now := max s.now t } tk0 tm0 p hp, r⟩
          · rcases List.mem_append.mp h with h1 | h2
            · cases h1
            · have h3 := ih _ q k h2; exact h3
        · split at h
          · rename_i htw
            split at h
            · rename_i p0 d0 he
              have he' : earliestWait s = some (p0, d0) := he
              obtain ⟨hm, hdl⟩ := earliestWait_mem he'
              have hd0 : d0 = t := by
                have : (earliestWait s).map (·.2) = some t := by simpa using htw
                rw [he'] at this; simpa using this
              rcases List.mem_append.mp h with h1 | h2
              · unfold abandon at h1
                simp only [List.mem_singleton] at h1
                cases h1
                exact ⟨p0, hm, rfl, rfl, d0, hdl, by omega⟩
              · obtain ⟨p, hp, r⟩ := ih _ q k h2
                exact ⟨p, pending_abandon (o := o) { s with now := max s.now t } p0 _ p hp, r⟩
            · rcases List.mem_append.mp h with h1 | h2
              · cases h1
              · have h3 := ih _ q k h2; exact h3
          · rcases List.mem_append.mp h with h1 | h2
            · cases h1
            · have h3 := ih _ q k h2; exact h3

/-- **prompt**: unless the advance ran out of fuel (reported), no blocked call with a deadline at or before
the target is left waiting -/
theorem advanceTo_wait_prompt (target : Nat) : ∀ (fuel : Nat) (s : St M),
    (advanceTo o c target fuel s).2.2.2 = false →
    ∀ p ∈ (advanceTo o c target fuel s).1.pending, ∀ d, p.deadline = some d → target < d := by
  intro fuel
  induction fuel with
  | zero => intro s h; simp [advanceTo] at h
  | succ f ih =>
    intro s h
    unfold advanceTo at h ⊢
    simp only at h ⊢
    split
    · rename_i hmin
      have h1 := minOpt_none_right (minOpt_none_left hmin)
      have : earliestWait s = none := by
        cases he : earliestWait s with
        | none => rfl
        | some e => simp [he] at h1
      intro p hp d hd
      have := earliestWait_none this p hp
      rw [this] at hd; cases hd
    · rename_i t hmin
      split
      · rename_i hgt
        intro p hp d hd
        simp only at hp
        cases hel : earliestWait s with
        | none => have := earliestWait_none hel p hp; rw [this] at hd; cases hd
        | some e0 =>
          have hle := earliestWait_le hel p hp d hd
          have : t ≤ e0.2 := by
            rw [hel] at hmin
            exact minOpt3_le_mid hmin
          omega
      · rename_i hle
        rw [hmin] at h
        simp only [hle, if_false] at h
        exact ih _ (by simpa using h)

/-- a blocked call without a deadline, or whose deadline lies beyond the target, is still blocked after the
advance unless it was answered - and then not with `LockWaitTimeout` (previous theorem) -/
theorem advanceTo_pending_sub (target : Nat) : ∀ (fuel : Nat) (s : St M),
    ∀ p ∈ (advanceTo o c target fuel s).1.pending, p ∈ s.pending := by
  intro fuel
  induction fuel with
  | zero => intro s p hp; exact hp
  | succ f ih =>
    intro s p hp
    unfold advanceTo at hp
    simp only at hp
    split at hp
    · exact hp
    · split at hp
      · exact hp
      · simp only at hp
        split at hp
        · split at hp
          · rename_i tk0 tm0 _
            have h3 := ih _ p hp; exact pending_fireLease (o := o) { s with now := max s.now _ } tk0 tm0 p h3
          · have h3 := ih _ p hp; exact h3
        · split at hp
          · split at hp
            · rename_i p0 _ _
              have h3 := ih _ p hp; exact pending_abandon (o := o) { s with now := max s.now _ } p0 _ p h3
            · have h3 := ih _ p hp; exact h3
          · have h3 := ih _ p hp; exact h3

end Ldlm.Core
