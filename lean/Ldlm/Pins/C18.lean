import Ldlm.Generated.Facts
/-!
Pins: the normalised source text of the small decision functions the hand-written models M4/M6/M7
were written against.  `Generated/Facts.lean` is regenerated from /repo on every run; each `pin_*`
theorem below breaks when the function's text changes (comment-only and whitespace-only edits do
not change the normalised text).  A broken pin is a broken proof obligation: the models may no
longer describe the code, and the check then searches the implementation for a failing input.
This file is written by hand (copied from the facts at the time the models were written) and is
NOT regenerated.

This file: the functions the models of C18 are written against. A change to one of them breaks
exactly the checks of the properties that pin it.
-/
namespace Ldlm.Pins.C18
open Ldlm

def expectedIpcUnlock : String := "{ log.Info(\"Handling IPC Unlock request\", \"name\", req.Name, \"key\", req.Key) if req.Key == \"\" { for _, v := range i.lckSrv.Locks() { if v.Name() == req.Name { req.Key = v.Key() } } } if req.Key == \"\" { return lock.ErrLockDoesNotExist } unlocked, err := i.lckSrv.Unlock(context.Background(), req.Name, req.Key) if err != nil { return fmt.Errorf(\"failed to unlock lock: %s\", err) } *resp = UnlockResponse(unlocked) return nil }"

theorem pin_IpcUnlock : Facts.bodyIpcUnlock = expectedIpcUnlock := rfl

end Ldlm.Pins.C18
