package restc

// C15 — the REST gateway and gRPC give the same results for the same requests.
//
// Paired mode: two fresh identical lock servers in one bubble (one clock). Server G is spoken to
// "over gRPC" (direct calls on the service object under a TagConn context = one connection), server
// R over REST (POST /session = one connection). The same semantic request sequence is sent to both,
// the REST one encoded as hand-written JSON in all the spellings proto3 JSON allows. Keys are mapped
// positionally: the k-th key granted on R stands for the k-th key granted on G.
//
// Mixed mode: reference server A (all gRPC) against server B on which every logical session owns a
// REST session AND a gRPC connection and every request picks one of the two transports; a key
// granted over one transport is then used over the other.

import (
	"context"
	"encoding/json"
	"fmt"
	"strings"
	"testing"
	"testing/synctest"
	"time"

	pb "github.com/imoore76/ldlm/protos"
	"google.golang.org/protobuf/encoding/protojson"

	"verif/harness/common"
	"verif/harness/impl"
)

// ---------------------------------------------------------------- semantic requests

type keyRef struct {
	Kind string // "granted" (Idx-th key granted so far) | "lit" (Lit verbatim, same on both sides) | "absent"
	Idx  int
	Lit  string
}

func (k keyRef) canon() string {
	switch k.Kind {
	case "granted":
		return fmt.Sprintf("K%d", k.Idx)
	case "lit":
		return "lit" + impl.Tok(k.Lit)
	}
	return "-"
}

type semReq struct {
	Rpc       string // TryLock | Unlock | Renew
	Name      string
	Size, Lt  *int32 // TryLock
	Key       keyRef // Unlock, Renew
	RenewLt   int32  // Renew (0 = absent: the field is not optional)
	Malformed string // non-empty: the JSON body is deliberately not a valid request of this RPC
}

func (q semReq) canon() string {
	switch q.Rpc {
	case "TryLock":
		return fmt.Sprintf("TryLock %s %s %s", impl.Tok(q.Name), optS(q.Size), optS(q.Lt))
	case "Unlock":
		return fmt.Sprintf("Unlock %s %s", impl.Tok(q.Name), q.Key.canon())
	}
	return fmt.Sprintf("Renew %s %s %d", impl.Tok(q.Name), q.Key.canon(), q.RenewLt)
}

type step struct {
	Kind string // open | end | req
	Sess int    // logical session
	Req  semReq
	Via  string // mixed mode: rest | grpc (transport used on server B)
	Gap  time.Duration
}

func (s step) canon() string {
	switch s.Kind {
	case "open", "end":
		return fmt.Sprintf("%s s%d +%d", s.Kind, s.Sess, s.Gap/time.Second)
	}
	m := ""
	if s.Req.Malformed != "" {
		m = " !" + s.Req.Malformed
	}
	return fmt.Sprintf("s%d %s%s %s +%d", s.Sess, s.Req.canon(), m, s.Via, s.Gap/time.Second)
}

type grantInfo struct {
	Name  string
	Sess  int
	Lease bool // granted with a lock timeout > 0 (only those can be renewed)
}

type genState struct {
	open    []int // logical sessions currently open
	nSess   int   // sessions opened so far
	granted []grantInfo
}

type source interface {
	next(st *genState) (step, bool)
}

// ---------------------------------------------------------------- random generator

// two long names: request bodies of about 1 KiB and 5 KiB (a transport-specific size limit shows here)
var c15Names = []string{"a", "ab", "b", "é", "", strings.Repeat("n", 960), strings.Repeat("L", 5000)}

type randSource struct {
	r     *common.Rng
	left  int
	mixed bool
}

func weighted[T any](r *common.Rng, xs []T, w []int) T {
	tot := 0
	for _, x := range w {
		tot += x
	}
	n := r.Intn(tot)
	for i, x := range w {
		if n < x {
			return xs[i]
		}
		n -= x
	}
	return xs[len(xs)-1]
}

func (g *randSource) gap() time.Duration {
	return time.Duration(weighted(g.r, []int{1, 2, 3, 4, 5, 6}, []int{35, 20, 12, 11, 11, 11})) * time.Second
}

func (g *randSource) next(st *genState) (step, bool) {
	if g.left <= 0 {
		return step{}, false
	}
	g.left--
	r := g.r
	if len(st.open) == 0 || (len(st.open) < 3 && r.Chance(7)) {
		return step{Kind: "open", Sess: st.nSess, Gap: g.gap()}, true
	}
	if r.Chance(5) {
		return step{Kind: "end", Sess: common.Pick(r, st.open), Gap: g.gap()}, true
	}
	s := step{Kind: "req", Sess: common.Pick(r, st.open), Gap: g.gap(), Via: "rest"}
	if g.mixed && r.Chance(50) {
		s.Via = "grpc"
	}
	q := semReq{}
	pickKey := func(lease bool) (keyRef, string) {
		n := len(st.granted)
		if lease && r.Chance(55) { // the most recent grant that has a lease: the one a Renew can still hit
			for i := n - 1; i >= 0 && i >= n-4; i-- {
				if st.granted[i].Lease {
					return keyRef{Kind: "granted", Idx: i}, st.granted[i].Name
				}
			}
		}
		switch {
		case n > 0 && r.Chance(78):
			i := r.Intn(n)
			if r.Chance(60) { // prefer recent grants: more likely still held
				i = n - 1 - r.Intn(min(n, 3))
			}
			return keyRef{Kind: "granted", Idx: i}, st.granted[i].Name
		case r.Chance(60):
			return keyRef{Kind: "lit", Lit: common.Pick(r, []string{"nope", "00000000-dead-4000-8000-000000000001", "é", "a", " "})}, common.Pick(r, c15Names)
		}
		return keyRef{Kind: "absent"}, common.Pick(r, c15Names)
	}
	switch weighted(r, []string{"TryLock", "Unlock", "Renew"}, []int{45, 30, 25}) {
	case "TryLock":
		q.Rpc = "TryLock"
		q.Name = weighted(r, c15Names, []int{30, 20, 25, 17, 8, 4, 3})
		q.Size = weighted(r, []*int32{nil, p32(0), p32(1), p32(2), p32(-1)}, []int{35, 8, 20, 30, 7})
		q.Lt = weighted(r, []*int32{nil, p32(0), p32(5), p32(-1)}, []int{40, 10, 40, 10})
	case "Unlock":
		q.Rpc = "Unlock"
		q.Key, q.Name = pickKey(false)
		if r.Chance(12) {
			q.Name = common.Pick(r, c15Names)
		}
	default:
		q.Rpc = "Renew"
		q.Key, q.Name = pickKey(true)
		if r.Chance(12) {
			q.Name = common.Pick(r, c15Names)
		}
		q.RenewLt = weighted(r, []int32{5, 2, 0, -1}, []int{50, 20, 18, 12})
	}
	if s.Via == "rest" && r.Chance(8) {
		q.Malformed = "pending" // the encoder picks the concrete damage
	}
	s.Req = q
	return s, true
}

// ---------------------------------------------------------------- bounded-exhaustive generator

// exhSource plays one word over a small alphabet; symbols are resolved against the state at run time.
type exhSource struct {
	word []int
	i    int
}

const exhAlphabet = 10

func exhWordString(w []int) string {
	names := []string{"open2", "try(a)", "try(a,size2)", "try(a,lt5)", "unlock(a,last)", "unlock(a,first)", "renew(a,last,5)", "renew(a,nope,5)+5s", "s1:try(a,size2)", "end0"}
	p := []string{}
	for _, x := range w {
		p = append(p, names[x])
	}
	return strings.Join(p, " ")
}

func (e *exhSource) next(st *genState) (step, bool) {
	if st.nSess == 0 {
		return step{Kind: "open", Sess: 0}, true
	}
	if e.i >= len(e.word) {
		return step{}, false
	}
	sym := e.word[e.i]
	e.i++
	has := func(s int) bool {
		for _, o := range st.open {
			if o == s {
				return true
			}
		}
		return false
	}
	sess := 0
	if !has(0) && len(st.open) > 0 {
		sess = st.open[0]
	}
	if len(st.open) == 0 {
		e.i-- // re-open first, then replay the symbol
		return step{Kind: "open", Sess: st.nSess}, true
	}
	key := func(first bool) keyRef {
		if len(st.granted) == 0 {
			return keyRef{Kind: "lit", Lit: "nope"}
		}
		if first {
			return keyRef{Kind: "granted", Idx: 0}
		}
		return keyRef{Kind: "granted", Idx: len(st.granted) - 1}
	}
	rq := func(q semReq) (step, bool) { return step{Kind: "req", Sess: sess, Req: q, Via: "rest"}, true }
	switch sym {
	case 0:
		return step{Kind: "open", Sess: st.nSess}, true
	case 1:
		return rq(semReq{Rpc: "TryLock", Name: "a"})
	case 2:
		return rq(semReq{Rpc: "TryLock", Name: "a", Size: p32(2)})
	case 3:
		return rq(semReq{Rpc: "TryLock", Name: "a", Lt: p32(5)})
	case 4:
		return rq(semReq{Rpc: "Unlock", Name: "a", Key: key(false)})
	case 5:
		return rq(semReq{Rpc: "Unlock", Name: "a", Key: key(true)})
	case 6:
		return rq(semReq{Rpc: "Renew", Name: "a", Key: key(false), RenewLt: 5})
	case 7:
		return step{Kind: "req", Sess: sess, Req: semReq{Rpc: "Renew", Name: "a", Key: keyRef{Kind: "lit", Lit: "nope"}, RenewLt: 5}, Via: "rest", Gap: 5 * time.Second}, true
	case 8:
		if len(st.open) > 1 {
			sess = st.open[len(st.open)-1]
		}
		return rq(semReq{Rpc: "TryLock", Name: "a", Size: p32(2)})
	}
	return step{Kind: "end", Sess: sess}, true
}

// ---------------------------------------------------------------- JSON encoding of a request

func jsonStr(r *common.Rng, s string) string {
	if r.Chance(25) { // every rune as a \u escape
		var b strings.Builder
		b.WriteByte('"')
		for _, c := range s {
			fmt.Fprintf(&b, `\u%04x`, c)
		}
		b.WriteByte('"')
		return b.String()
	}
	b, _ := json.Marshal(s)
	return string(b)
}

// jsonInt renders v in one of the spellings proto3 JSON accepts for an int32.
func jsonInt(r *common.Rng, v int32) (string, string) {
	switch r.Intn(10) {
	case 0, 1, 2, 3, 4:
		return fmt.Sprint(v), "number"
	case 5, 6:
		return fmt.Sprintf(`"%d"`, v), "string"
	case 7:
		return fmt.Sprintf("%d.0", v), "n.0"
	case 8:
		return fmt.Sprintf("%de0", v), "ne0"
	}
	return fmt.Sprintf(`"%d.0"`, v), "string-n.0"
}

var badInts = []string{"2147483648", "-2147483649", "1e10", `"99999999999"`, `"x"`, "true", "1.5", "[1]", `{"a":1}`, `" 1"`, `""`}
var badStrs = []string{"5", "true", `["a"]`, `{"x":"a"}`, "\"\xff\""}
var unknownFields = []string{`"bogus":1`, `"Name":"zz"`, `"extra":{"name":"zz","size":[1,2,{"x":null}]}`, `"NAME":null`, `"lock_timeout":3`, `"Size":7`}

// encode renders q as a REST request: path and JSON body. For a request marked malformed it picks
// the damage and returns its description (which is also written back into q.Malformed).
func encode(r *common.Rng, q *semReq, realKey string, count func(string)) (path, body string) {
	type field struct{ name, val string }
	fs := []field{}
	ltName := common.Pick(r, []string{"lock_timeout_seconds", "lockTimeoutSeconds"})
	addInt := func(name string, p *int32, optional bool) {
		if p == nil {
			if optional && r.Chance(30) {
				fs = append(fs, field{name, "null"})
				count("enc:int:null")
			} else {
				count("enc:int:absent")
			}
			return
		}
		v, how := jsonInt(r, *p)
		count("enc:int:" + how)
		fs = append(fs, field{name, v})
	}
	addStr := func(name, s string) {
		if s == "" {
			switch r.Intn(3) {
			case 0:
				count("enc:str:absent")
				return
			case 1:
				count("enc:str:null")
				fs = append(fs, field{name, "null"})
				return
			}
		}
		fs = append(fs, field{name, jsonStr(r, s)})
	}
	switch q.Rpc {
	case "TryLock":
		path = "/v1/lock"
		addStr("name", q.Name)
		addInt("size", q.Size, true)
		addInt(ltName, q.Lt, true)
	case "Unlock":
		path = "/v1/unlock"
		addStr("name", q.Name)
		addStr("key", realKey)
	default:
		path = "/v1/renew"
		addStr("name", q.Name)
		addStr("key", realKey)
		if q.RenewLt == 0 && r.Chance(60) {
			addInt(ltName, nil, true)
		} else {
			addInt(ltName, &q.RenewLt, false)
		}
	}
	if r.Chance(25) {
		count("enc:unknown-field")
		extra := common.Pick(r, unknownFields)
		if q.Rpc == "TryLock" && r.Chance(40) {
			extra = common.Pick(r, []string{`"key":"zz"`, `"wait_timeout_seconds":3`, `"waitTimeoutSeconds":"3"`})
		}
		fs = append(fs, field{"", extra})
	}
	// shuffle
	for i := len(fs) - 1; i > 0; i-- {
		j := r.Intn(i + 1)
		fs[i], fs[j] = fs[j], fs[i]
	}
	intFields := map[string]bool{"size": true, "lock_timeout_seconds": true, "lockTimeoutSeconds": true}
	whole := ""
	setField := func(name, val string) {
		for i := range fs {
			if fs[i].name == name {
				fs[i].val = val
				return
			}
		}
		fs = append(fs, field{name, val})
	}
	if q.Malformed != "" {
		switch k := r.Intn(6); k {
		case 0, 1: // an int32 field with a value outside the type (Unlock has none: a non-string key)
			name, bad := ltName, common.Pick(r, badInts)
			if q.Rpc == "TryLock" && r.Chance(50) {
				name = "size"
			}
			if q.Rpc == "Unlock" {
				name, bad = "key", common.Pick(r, badStrs)
			}
			setField(name, bad)
			q.Malformed = name + "=" + bad
		case 2: // a string field with a non-string value
			bad := common.Pick(r, badStrs)
			setField("name", bad)
			q.Malformed = "name=" + bad
		case 3: // duplicate field (also through the two spellings of one field)
			if q.Rpc != "Unlock" && r.Chance(50) {
				fs = append(fs, field{"lock_timeout_seconds", "5"}, field{"lockTimeoutSeconds", "5"})
				kept := fs[:0]
				seen := map[string]bool{}
				for _, f := range fs { // drop an earlier single spelling so that exactly the pair remains
					if intFields[f.name] && f.name != "size" {
						if seen[f.name] {
							continue
						}
						seen[f.name] = true
					}
					kept = append(kept, f)
				}
				fs = kept
				q.Malformed = "both-spellings"
			} else {
				fs = append(fs, field{"name", `"a"`}, field{"name", `"b"`})
				q.Malformed = "duplicate-name"
			}
		case 4:
			whole = common.Pick(r, []string{"[]", "null", `"str"`, "7", "{", `{"name":`, "\xff"})
			q.Malformed = "body=" + whole
		default:
			q.Malformed = "truncated"
		}
	}
	sep := common.Pick(r, []string{"", " ", "\n", "\t "})
	parts := []string{}
	for _, f := range fs {
		if f.name == "" {
			parts = append(parts, f.val)
		} else {
			parts = append(parts, `"`+f.name+`"`+sep+":"+sep+f.val)
		}
	}
	body = "{" + sep + strings.Join(parts, sep+","+sep) + sep + "}"
	if len(fs) == 0 && q.Malformed == "" && r.Chance(40) {
		body = "" // an empty body is an empty message
		count("enc:empty-body")
	}
	if whole != "" {
		body = whole
	}
	if q.Malformed == "truncated" {
		body = body[:len(body)-1-r.Intn(min(3, len(body)-1))]
	}
	return path, body
}

// ---------------------------------------------------------------- responses

type nresp struct {
	HTTP     int    `json:"http,omitempty"` // 0 = direct gRPC call
	Ok       bool   `json:"ok"`             // locked / unlocked
	Err      string `json:"err"`            // "-" or the pb error code name
	Name     string `json:"name"`
	Key      string `json:"key,omitempty"`
	KeyEcho  bool   `json:"-"` // response key == request key
	Raw      string `json:"raw,omitempty"`
	Undecod  string `json:"undecodable,omitempty"`
	Panic    string `json:"panic,omitempty"`
	GrpcFail string `json:"grpc_error,omitempty"`
}

func errCode(e *pb.Error) string {
	if e == nil {
		return "-"
	}
	return e.Code.String()
}

func fromLock(m *pb.LockResponse, reqKey string) nresp {
	return nresp{Ok: m.GetLocked(), Err: errCode(m.Error), Name: m.GetName(), Key: m.GetKey(), KeyEcho: m.GetKey() == reqKey}
}
func fromUnlock(m *pb.UnlockResponse) nresp {
	return nresp{Ok: m.GetUnlocked(), Err: errCode(m.Error), Name: m.GetName()}
}

// callGrpc performs q as a direct call on the service object under a connection context.
func callGrpc(s *side, conn context.Context, q semReq, key string) (r nresp) {
	defer func() {
		if p := recover(); p != nil {
			r.Panic = fmt.Sprint(p)
		}
	}()
	switch q.Rpc {
	case "TryLock":
		m, err := s.svc.TryLock(conn, &pb.TryLockRequest{Name: q.Name, Size: q.Size, LockTimeoutSeconds: q.Lt})
		if err != nil {
			return nresp{GrpcFail: impl.ErrName(err)}
		}
		return fromLock(m, "\x00")
	case "Unlock":
		m, err := s.svc.Unlock(conn, &pb.UnlockRequest{Name: q.Name, Key: key})
		if err != nil {
			return nresp{GrpcFail: impl.ErrName(err)}
		}
		return fromUnlock(m)
	}
	m, err := s.svc.Renew(conn, &pb.RenewRequest{Name: q.Name, Key: key, LockTimeoutSeconds: q.RenewLt})
	if err != nil {
		return nresp{GrpcFail: impl.ErrName(err)}
	}
	return fromLock(m, key)
}

// callRest performs the encoded request over the gateway and decodes the answer with protojson.
func callRest(s *side, cookie string, q semReq, path, body, key string) (r nresp) {
	h := s.do("POST", path, &cookie, body)
	r = nresp{HTTP: h.Code, Panic: h.Panic, Raw: strings.TrimSpace(h.Body)}
	if h.Code != 200 || h.Panic != "" {
		return r
	}
	if q.Rpc == "Unlock" {
		m := &pb.UnlockResponse{}
		if err := protojson.Unmarshal([]byte(h.Body), m); err != nil {
			r.Undecod = "not an UnlockResponse"
			return r
		}
		n := fromUnlock(m)
		n.HTTP, n.Raw = h.Code, ""
		return n
	}
	m := &pb.LockResponse{}
	if err := protojson.Unmarshal([]byte(h.Body), m); err != nil {
		r.Undecod = "not a LockResponse"
		return r
	}
	rk := key
	if q.Rpc == "TryLock" {
		rk = "\x00"
	}
	n := fromLock(m, rk)
	n.HTTP, n.Raw = h.Code, ""
	return n
}

// ---------------------------------------------------------------- one sequence

type grant struct {
	Key  string
	Name string
	Via  string
}

type trace struct {
	Step    string `json:"step"`
	AtSec   string `json:"at"`
	Body    string `json:"rest_body,omitempty"`
	RefKey  string `json:"ref_key,omitempty"`
	TestKey string `json:"test_key,omitempty"`
	Ref     *nresp `json:"ref,omitempty"`
	Test    *nresp `json:"test,omitempty"`
}

type seqOut struct {
	canon                        []string
	grants, keyedOk, r400, cross int
	expiries                     int
	found                        bool
}

// runSeq runs one sequence in a fresh bubble. mixed=false: paired servers G (gRPC) / R (REST);
// mixed=true: reference A (gRPC) / B (REST and gRPC interleaved).
func runSeq(t *testing.T, res *common.Result, prop string, label string, mixed bool, src source, enc *common.Rng) (out seqOut) {
	mode := "paired"
	if mixed {
		mode = "mixed"
	}
	synctest.Test(t, func(t *testing.T) {
		start := time.Now()
		ref, err := newSide(false, 0)
		if err != nil {
			t.Fatalf("server.New: %v", err)
		}
		defer ref.close()
		tst, err := newSide(true, 10*time.Minute)
		if err != nil {
			t.Fatalf("server.New/NewRestServer: %v", err)
		}
		defer tst.close()

		st := &genState{}
		refConn := map[int]context.Context{}
		tstConn := map[int]context.Context{} // mixed mode only
		cookie := map[int]string{}
		var gRef, gTst []grant
		var tr []trace
		find := func(sig, what string) {
			out.found = true
			res.Find(common.Finding{Kind: "violation", Property: prop, Signature: sig, What: what,
				Replay: map[string]any{"mode": mode, "sequence": label, "seed": common.Seed(), "steps": tr,
					"final_ref_locks": locksCanon(ref.ls, true), "final_test_locks": locksCanon(tst.ls, true)}})
		}
		at := func() string { return time.Since(start).String() }

		for !out.found {
			s, ok := src.next(st)
			if !ok {
				break
			}
			out.canon = append(out.canon, s.canon())
			switch s.Kind {
			case "open":
				refConn[s.Sess] = ref.grpcConn(s.Sess)
				h := tst.do("POST", "/session", nil, "")
				if h.Code != 201 || h.Cookie == nil || h.Panic != "" {
					tr = append(tr, trace{Step: s.canon(), AtSec: at()})
					if h.Panic != "" {
						find("rest:panic", "POST /session panicked: "+h.Panic)
					} else {
						find("rest:equiv:session-create-failed", fmt.Sprintf("POST /session answered %d (cookie present: %v); required 201 with a session cookie", h.Code, h.Cookie != nil))
					}
					return
				}
				cookie[s.Sess] = h.Cookie.Value
				if mixed {
					tstConn[s.Sess] = tst.grpcConn(100 + s.Sess)
				}
				st.open = append(st.open, s.Sess)
				st.nSess++
				tr = append(tr, trace{Step: s.canon(), AtSec: at()})
				res.Count("step:open")
			case "end":
				ref.grpcEnd(refConn[s.Sess])
				ck := cookie[s.Sess]
				h := tst.do("DELETE", "/session", &ck, "")
				if mixed {
					tst.grpcEnd(tstConn[s.Sess])
				}
				for i, o := range st.open {
					if o == s.Sess {
						st.open = append(st.open[:i:i], st.open[i+1:]...)
						break
					}
				}
				tr = append(tr, trace{Step: s.canon(), AtSec: at(), Test: &nresp{HTTP: h.Code, Panic: h.Panic}})
				res.Count("step:end")
				if h.Panic != "" {
					find("rest:panic", "DELETE /session panicked: "+h.Panic)
					return
				}
				if h.Code != 200 {
					find("rest:equiv:session-end-failed", fmt.Sprintf("DELETE /session of an open session answered %d; required 200", h.Code))
					return
				}
			case "req":
				q := s.Req
				refKey, tstKey := "", ""
				crossUse := false
				switch q.Key.Kind {
				case "granted":
					refKey = gRef[q.Key.Idx].Key
					if q.Key.Idx < len(gTst) {
						tstKey = gTst[q.Key.Idx].Key
						crossUse = mixed && gTst[q.Key.Idx].Via != s.Via
					} else {
						tstKey = "missing-grant"
					}
				case "lit":
					refKey, tstKey = q.Key.Lit, q.Key.Lit
				}
				e := trace{AtSec: at(), RefKey: refKey, TestKey: tstKey}
				var rr, rt nresp
				if s.Via == "grpc" {
					rt = callGrpc(tst, tstConn[s.Sess], q, tstKey)
				} else {
					path, body := encode(enc, &q, tstKey, res.Count)
					e.Body = body
					before := ""
					if q.Malformed != "" {
						before = stateCanon(tst.ls)
					}
					rt = callRest(tst, cookie[s.Sess], q, path, body, tstKey)
					if q.Malformed != "" {
						s.Req = q
						out.canon[len(out.canon)-1] = s.canon()
						e.Step, e.Test = s.canon(), &rt
						tr = append(tr, e)
						res.Count("malformed:" + strings.SplitN(q.Malformed, "=", 2)[0])
						if rt.Panic != "" {
							find("rest:panic", "the gateway panicked on a malformed "+q.Rpc+" body: "+rt.Panic)
							return
						}
						if rt.HTTP == 400 {
							res.Count("rest-400")
							out.r400++
						} else {
							res.Count(fmt.Sprintf("malformed-answered-%d", rt.HTTP))
							find("rest:malformed-not-400", fmt.Sprintf("a %s body that is not a valid proto3-JSON request (%s) was answered with HTTP %d; required 400", q.Rpc, q.Malformed, rt.HTTP))
							return
						}
						if after := stateCanon(tst.ls); after != before {
							find("rest:400-had-effect", "a request refused with HTTP 400 changed the server state (holds, lock table or lease timers differ before/after)")
							return
						}
						time.Sleep(s.Gap)
						synctest.Wait()
						continue
					}
				}
				rr = callGrpc(ref, refConn[s.Sess], q, refKey)
				e.Step, e.Ref, e.Test = s.canon(), &rr, &rt
				tr = append(tr, e)
				res.Count("rpc:" + q.Rpc + ":" + s.Via)
				res.Count(fmt.Sprintf("answer:%s:ok=%v:err=%s", q.Rpc, rr.Ok, rr.Err))
				if crossUse {
					res.Count("cross-transport-key-uses")
					out.cross++
					if rr.Ok {
						res.Count("cross-transport-key-uses:successful")
					}
				}
				sig := func(kind string) string {
					if crossUse {
						return "rest:cross-transport-key"
					}
					return "rest:equiv:" + q.Rpc + ":" + kind
				}
				okName := map[string]string{"TryLock": "locked", "Renew": "locked", "Unlock": "unlocked"}[q.Rpc]
				switch {
				case rr.Panic != "" || rt.Panic != "":
					find("rest:panic", fmt.Sprintf("%s panicked (reference gRPC call: %q, %s side: %q)", q.Rpc, rr.Panic, s.Via, rt.Panic))
				case rr.GrpcFail != "" || rt.GrpcFail != "":
					find("rest:equiv:"+q.Rpc+":grpc-call-failed", fmt.Sprintf("direct service call returned a Go error (ref %q, test %q); the service reports errors inside the response", rr.GrpcFail, rt.GrpcFail))
				case rt.HTTP != 0 && rt.HTTP != 200:
					find(sig("http-status"), fmt.Sprintf("REST answered HTTP %d to a well-formed %s request that gRPC answers normally (%s=%v, error %s)", rt.HTTP, q.Rpc, okName, rr.Ok, rr.Err))
				case rt.Undecod != "":
					find(sig("undecodable"), "REST 200 body is "+rt.Undecod+" in proto3 JSON")
				case rr.Ok != rt.Ok:
					find(sig("locked-differs"), fmt.Sprintf("%s over %s answered %s=%v, the same request over gRPC on an identical server answered %s=%v", q.Rpc, s.Via, okName, rt.Ok, okName, rr.Ok))
				case rr.Err != rt.Err:
					find(sig("error-code-differs"), fmt.Sprintf("%s over %s answered error code %s, over gRPC %s", q.Rpc, s.Via, rt.Err, rr.Err))
				case rr.Name != rt.Name:
					find(sig("name-differs"), fmt.Sprintf("%s over %s echoed name %q, over gRPC %q", q.Rpc, s.Via, rt.Name, rr.Name))
				case q.Rpc != "Unlock" && ((rr.Key == "") != (rt.Key == "") || (q.Rpc == "Renew" && rr.KeyEcho != rt.KeyEcho)):
					find(sig("key-differs"), fmt.Sprintf("%s over %s: response key present=%v echo=%v, over gRPC present=%v echo=%v", q.Rpc, s.Via, rt.Key != "", rt.KeyEcho, rr.Key != "", rr.KeyEcho))
				}
				if out.found {
					return
				}
				if q.Rpc == "TryLock" && rr.Ok {
					gRef = append(gRef, grant{rr.Key, q.Name, "grpc"})
					gTst = append(gTst, grant{rt.Key, q.Name, s.Via})
					st.granted = append(st.granted, grantInfo{q.Name, s.Sess, q.Lt != nil && *q.Lt > 0})
					out.grants++
				}
				if q.Rpc != "TryLock" && rr.Ok {
					out.keyedOk++
				}
			}
			nb := len(ref.ls.Locks())
			time.Sleep(s.Gap)
			synctest.Wait()
			if d := nb - len(ref.ls.Locks()); d > 0 {
				out.expiries += d
				res.CountN("lease-expiries-observed", d)
			}
			// the two servers must agree after every step, not only at the end
			if a, b := strings.Join(locksCanon(ref.ls, false), ","), strings.Join(locksCanon(tst.ls, false), ","); a != b {
				find("rest:equiv:final-state-differs", fmt.Sprintf("after the same requests the hold listings differ (modulo keys): reference [%s], %s side [%s]", a, mode, b))
				return
			}
		}
		if out.found {
			return
		}
		// end of sequence: same holds; then end every session on both sides: nothing may be left. A REST
		// session ends by DELETE or - every other sequence - by being abandoned for longer than the session
		// timeout: "a REST session playing the role of a connection" ends like a connection either way
		abandon := len(tr)%2 == 0
		for _, s := range st.open {
			ref.grpcEnd(refConn[s])
			if !abandon {
				ck := cookie[s]
				tst.do("DELETE", "/session", &ck, "")
			}
			if mixed {
				tst.grpcEnd(tstConn[s])
			}
		}
		how := "ending every session"
		if abandon {
			how = "ending every gRPC connection and leaving every REST session idle for the session timeout (10 min) + 1 s"
			res.Count("sequence-end:rest-sessions-abandoned")
			time.Sleep(10*time.Minute + time.Second)
		}
		synctest.Wait()
		if a, b := strings.Join(locksCanon(ref.ls, false), ","), strings.Join(locksCanon(tst.ls, false), ","); a != b {
			find("rest:equiv:final-state-differs", fmt.Sprintf("after %s the hold listings differ: reference [%s], %s side [%s]", how, a, mode, b))
		}
	})
	return out
}

// ---------------------------------------------------------------- driver

func runC15(t *testing.T, res *common.Result) {
	const prop = "C15"
	res.Rule = "request sequences (1-3 sessions; TryLock/Unlock/Renew with valid, zero, negative, absent, null, string-typed and malformed parameters, unknown fields, non-ASCII names; keys mostly the k-th granted key, sometimes dead or garbage; 1-6 s of virtual time between requests; session ends) sent once over gRPC (direct service calls under a TagConn context) and once over REST (JSON through the gateway handler) to two fresh identical servers in one synctest bubble, responses compared request by request and hold listings after every step; 20% of the random sequences run in mixed mode (reference all-gRPC server vs one server with both transports interleaved per request). Plus every word of a fixed length over a 10-symbol alphabet. distinct = distinct (mode, semantic step sequence incl. transport and damage); non-trivial = at least one grant and one successful Unlock/Renew with a granted key (or a lease expiry)"
	rng := common.NewRng(common.Seed())
	nSeq, nReq, exhLen := 600, 25, 3
	if common.Thorough() {
		nSeq, nReq, exhLen = 20000, 40, 5
	}
	nSeq = common.EnvInt("VERIF_C15_SEQS", nSeq)
	for i := 0; i < nSeq; i++ {
		r := rng.Fork(uint64(i))
		mixed := r.Chance(20)
		n := nReq - 5 + r.Intn(11)
		src := &randSource{r: r.Fork(1), left: n, mixed: mixed}
		label := fmt.Sprintf("random#%d", i)
		out := runSeq(t, res, prop, label, mixed, src, r.Fork(2))
		mode := "paired"
		if mixed {
			mode = "mixed"
		}
		res.Count("mode:" + mode)
		res.Eval(mode+"|"+strings.Join(out.canon, ";"), out.grants > 0 && (out.keyedOk > 0 || out.expiries > 0))
		if i < 2 {
			res.Sample(map[string]any{"mode": mode, "sequence": label, "steps": out.canon})
		}
	}
	// bounded-exhaustive: every word of length exhLen
	word := make([]int, exhLen)
	nWords := 0
	for {
		out := runSeq(t, res, prop, "word:"+exhWordString(word), false, &exhSource{word: append([]int{}, word...)}, rng.Fork(uint64(1000000+nWords)))
		nWords++
		res.Count("mode:exhaustive-word")
		res.Eval("word|"+strings.Join(out.canon, ";"), out.grants > 0 && (out.keyedOk > 0 || out.expiries > 0))
		i := exhLen - 1
		for ; i >= 0; i-- {
			word[i]++
			if word[i] < exhAlphabet {
				break
			}
			word[i] = 0
		}
		if i < 0 {
			break
		}
	}
	res.Note("%d random sequences (about %d steps each), %d exhaustive words of length %d over %d symbols", nSeq, nReq, nWords, exhLen, exhAlphabet)
}
