import Ldlm.Proofs.Table
import Ldlm.Proofs.TableFifo
import Ldlm.Proofs.CoreLock
import Ldlm.Proofs.CoreMain
import Ldlm.Proofs.CoreWait
import Ldlm.Proofs.CorePU
import Ldlm.Proofs.Threads
import Ldlm.Proofs.CoreQueue
import Ldlm.Props.C11
/-!
C03 — Blocked Lock calls: no lost wake-up, FIFO service, prompt timeout/cancel.

Interleaved (M1, every schedule, any number of threads):
* `no_lost_wakeup`        — in every reachable state, a non-empty queue means every unit is taken:
                            no release is ever lost while someone waits.
* `release_serves_head`, `arrivals_at_tail` — a release hands the unit to the HEAD of the queue and
                            to nobody else; arrivals join at the tail: service in arrival order.
* `fifo_no_overtaking`, `fifo_queue_order` — for EVERY schedule: while somebody is queued no TryLock
                            succeeds, no Lock takes the fast path and a released unit goes to the head
                            waiter only; the waiters still queued keep their relative order and stay
                            ahead of every later arrival — together: service in arrival order.
* `cancelled_never_served` — a waiter that gave up (wait time-out, caller cancel, shutdown) is out of
                            the queue, so no later release can serve it, and it does not delay the
                            others (`cancel_keeps_invariant`: the no-lost-wake-up invariant survives).
* `gave_up_never_granted` — every schedule of threaded calls (M1t): after a call has returned, nothing is
                            attributed to its thread until the thread's next invocation - a waiter that gave up is
                            never granted afterwards.
* `abandoned_never_granted` — M2, every history and every continuation (requests, expiries, session ends,
                            collections, restarts): a request that is no longer blocked is never blocked again and
                            never answered with a grant; `cancel_makes_gone`: a cancelled call is such a request.
                            (Invariant `Core.QP`: every queued call is a blocked call of that lock's name, queued once.)
* `answered_at_most_once`  — if an operation answers a blocked call (grant or error), no operation of any
                            continuation answers it again (`Core.step_answered_gone`, `Core.step_evgone`).
* `session_end_grants_no_own_waiter` — the units an ending session frees never go to that session's own blocked calls.
* `disconnect_answers_waiters` — a session end answers every blocked call of the session with an error and
                            leaves none of them blocked.
Timed (M2, sequential, virtual time):
* `wait_deadline`         — a blocked call with wait timeout w issued at time t gets the deadline t + w·10⁹.
* `wait_not_early`        — every `LockWaitTimeout` answer of an advance belongs to a call blocked before it
                            whose deadline lies at or before the instant advanced to: never earlier than
                            the timeout (`wait_not_early_pending`: a call whose deadline lies beyond that
                            instant gets no such answer, whatever else fires in between).
                            `wait_not_early_reachable`: the same in every reachable state, where the
                            request numbers of the blocked calls are distinct (`Core.run_pu`).
* `wait_prompt`           — after an advance no blocked call is left whose deadline has passed.
* `wait_only_shrinks`     — an advance adds no blocked call.
* `wait_timeout_zero_is_none` — wait timeout 0 / absent: no deadline.
* `waiter_implies_full_seq` — the sequential counterpart of no-lost-wake-up for every reachable
                            state (restarts, expiries, session ends included).
Real-time promptness and scheduler fairness are the Go runtime's (trusted); "promptly" is exact in
virtual time in the tie (seq and conc streams).
-/
namespace Ldlm.Props.C03
open Ldlm.Table

theorem no_lost_wakeup (as : List Act) (s' : St) (ev : List AOp) (hr : run [] as = some (s', ev))
    (n : Str) (o : Obj) (hg : AMap.get s' n = some o) (hq : o.q ≠ []) : o.cur = o.size :=
  ((run_inv as [] s' ev empty_inv hr) n o hg).1.nolost hq

theorem release_serves_head (n : Str) (o : Obj) (w : Tid × Str) (q' : List (Tid × Str)) (hq : o.q = w :: q') :
    (o.freeUnit n).1.q = q' ∧ (o.freeUnit n).1.acq = w :: o.acq ∧ (o.freeUnit n).2 = [.grant n w.2] :=
  Ldlm.Table.release_serves_head n o w q' hq

theorem arrivals_at_tail (n : Str) (o o' : Obj) (t : Tid) (k : Str) (ev : List AOp)
    (hs : stepObj n o (.acquire t n k) = some (o', ev)) (hfull : ¬ (o.cur < o.size ∧ o.q = [])) :
    o'.q = o.q ++ [(t, k)] :=
  enqueue_at_tail n o o' t k ev hs hfull

theorem cancelled_never_served (n : Str) (o o' : Obj) (t : Tid) (k : Str) (ev : List AOp) (hnd : o.q.Nodup)
    (hs : stepObj n o (.cancel t n k) = some (o', ev)) : (t, k) ∉ o'.q ∧ o'.q.Sublist o.q :=
  cancelled_leaves_queue n o o' t k ev hnd hs

theorem cancel_keeps_invariant (n : Str) (o o' : Obj) (t : Tid) (k : Str) (ev : List AOp) (hi : ObjInv o)
    (hs : stepObj n o (.cancel t n k) = some (o', ev)) : ObjInv o' :=
  (stepObj_inv n o o' _ ev hi hs).1

/-- while somebody is queued, the only grant any critical section can make is the hand-over to the head waiter -/
theorem fifo_no_overtaking (n : Str) (o o' : Obj) (a : Act) (ev : List AOp) (w : Tid × Str) (q' : List (Tid × Str))
    (hq : o.q = w :: q') (hs : stepObj n o a = some (o', ev)) :
    ∀ op ∈ ev, (∀ m k, op ≠ .try m k true) ∧ (∀ m k, op = .grant m k → k = w.2 ∧ w ∈ o'.acq ∧ o'.q = q') :=
  no_overtaking n o o' a ev w q' hq hs

/-- every schedule: the queue at the end = (a sub-list of the queue at the start, in the same order) ++ later arrivals -/
theorem fifo_queue_order (n : Str) (as : List Act) (o o' : Obj) (ev : List AOp) (hr : runObj n o as = some (o', ev)) :
    ∃ keep add, o'.q = keep ++ add ∧ keep.Sublist o.q :=
  queue_order n as o o' ev hr

/-- **a waiter that gives up is never granted the lock afterwards** - for every schedule of any number of
threaded calls (M1t): once a call of thread `t` has returned (a blocked Lock that gave up returns `false`),
no operation - no grant in particular - is attributed to `t` before `t` invokes a new call -/
theorem gave_up_never_granted (n : Str) (o : Obj) (as : List Threads.TAct) (s' : Threads.TSt) (tr : List Threads.Ev)
    (hi : ObjInv o) (hq : o.q = []) (ha : o.acq = []) (hr : Threads.trun n ⟨o, []⟩ as = some (s', tr))
    (pre post : List Threads.Ev) (t : Tid) (ok : Bool) (h : tr = pre ++ .ret t ok :: post)
    (p q : List Threads.Ev) (op : AOp) (h2 : post = p ++ .lin t op :: q) : ∃ c, Threads.Ev.inv t c ∈ p := by
  have hw := (Threads.trun_wf n as _ s' tr (Threads.idle_inv n o hi hq ha) hr).2
  rw [h] at hw
  obtain ⟨os', hw'⟩ := Threads.wf_suffix n pre _ _ hw
  exact Threads.no_lin_after_ret n os' t ok post hw' p q op h2

/-! non-vacuity: two waiters behind a holder; the Unlock hands the unit to the first one, a TryLock is
refused while the second still waits, and the second is still queued, first in line -/
def oF : Obj := { size := 1, cur := 1, q := [(2, [50]), (3, [51])], keys := [[49]], acq := [], plain := 3 }
example : (runObj [120] oF [.unlock 1 [120] [49], .tryAcquire 4 [120] [52]]).map (fun r => (r.1.q, r.1.acq, r.2)) =
    some ([(3, [51])], [(2, [50])], [.unlock [120] [49] true, .grant [120] [50], .try [120] [52] false]) := by decide

/-! ### timed, sequential (M2) -/
open Ldlm.Core

variable {M : Type} {o : MapOps M} {c : Cfg}

theorem waiter_implies_full_seq (ho : o.Lawful) (ops : List Op) (n : Core.Str) (r : LockRec)
    (hg : o.get (Core.run o c ops).locks n = some r) (hq : r.q ≠ []) : (r.keys.length : Int) = r.size :=
  (run_lockInv (c := c) ho ops n r hg).2 hq

/-- a blocked call gets the deadline `now + w·10⁹` iff a positive wait timeout was given -/
theorem wait_deadline (s : Core.St M) (sid : Sid) (n : Core.Str) (sz lt : Option Int) (w : Int)
    (hp : (Core.step o c s (.lock (some sid) n sz lt (some w))).2.pending = true) :
    ∃ p, (Core.step o c s (.lock (some sid) n sz lt (some w))).1.pending = s.pending ++ [p] ∧
      p.deadline = (if w > 0 then some (s.now + w.toNat * sec) else none) := by
  simp only [Core.step] at hp ⊢
  unfold srvLock at hp ⊢
  simp only at hp ⊢
  repeat' split
  all_goals first
    | (exact ⟨_, rfl, by simp_all⟩)
    | simp_all

/-- **never earlier than the timeout**: a `LockWaitTimeout` answer produced by an advance of `dt` belongs to a
call that was blocked before, whose deadline is at or before `now + dt` -/
theorem wait_not_early (s : Core.St M) (dt : Nat) (q : Nat) (k : Core.Str)
    (h : Event.done q false k (some .waitTimeout) ∈ (Core.step o c s (.advance dt)).2.events) :
    ∃ p ∈ s.pending, p.req = q ∧ p.key = k ∧ ∃ d, p.deadline = some d ∧ d ≤ s.now + dt := by
  simp only [Core.step] at h
  exact advanceTo_wait_not_early _ _ s q k h

/-- the contrapositive a client relies on: if the request numbers of the blocked calls are distinct (they
are: `nreq` counts up), a blocked call whose deadline lies beyond `now + dt`, or that has none, is not
answered `LockWaitTimeout` by the advance -/
theorem wait_not_early_pending (s : Core.St M) (dt : Nat) (p : Pending) (hp : p ∈ s.pending)
    (hu : ∀ p' ∈ s.pending, p'.req = p.req → p' = p)
    (hd : ∀ d, p.deadline = some d → s.now + dt < d) (k : Core.Str) :
    Event.done p.req false k (some .waitTimeout) ∉ (Core.step o c s (.advance dt)).2.events := by
  intro h
  obtain ⟨p', hp', hreq, _, d, hdl, hle⟩ := wait_not_early s dt p.req k h
  have := hu p' hp' hreq
  subst this
  have := hd d hdl
  omega

/-- … and in every reachable state (any history, restarts included) the request numbers ARE distinct: a call
blocked after the history `ops` whose deadline lies beyond `now + dt` (or that has none) is not answered
`LockWaitTimeout` by the advance -/
theorem wait_not_early_reachable (ops : List Op) (dt : Nat) (p : Pending) (hp : p ∈ (Core.run o c ops).pending)
    (hd : ∀ d, p.deadline = some d → (Core.run o c ops).now + dt < d) (k : Core.Str) :
    Event.done p.req false k (some .waitTimeout) ∉ (Core.step o c (Core.run o c ops) (.advance dt)).2.events :=
  wait_not_early_pending _ dt p hp (fun p' hp' e => (run_pu (o := o) (c := c) ops).unique p p' hp hp' e) hd k

/-- **prompt**: unless the advance reports a tie or ran out of fuel, no blocked call with a deadline at or
before `now + dt` is still waiting afterwards -/
theorem wait_prompt (s : Core.St M) (dt : Nat) (hnt : (Core.step o c s (.advance dt)).2.tie = false) :
    ∀ p ∈ (Core.step o c s (.advance dt)).1.pending, ∀ d, p.deadline = some d → s.now + dt < d := by
  simp only [Core.step] at hnt ⊢
  apply advanceTo_wait_prompt
  cases hx : (advanceTo o c (s.now + dt) (4 * (s.timers.length + s.pending.length) + 100000) s).2.2.2 with
  | false => rfl
  | true => simp [hx] at hnt

theorem wait_only_shrinks (s : Core.St M) (dt : Nat) :
    ∀ p ∈ (Core.step o c s (.advance dt)).1.pending, p ∈ s.pending := by
  simp only [Core.step]
  exact advanceTo_pending_sub _ _ s

theorem wait_timeout_zero_is_none (s : Core.St M) (sid : Option Sid) (n : Core.Str) (sz lt : Option Int) :
    Core.step o c s (.lock sid n sz lt none) = Core.step o c s (.lock sid n sz lt (some 0)) := by
  simp [Core.step, srvLock, negOpt]

/-! ### a waiter that gives up is never granted the lock afterwards (M2: every continuation of every history) -/

/-- after any history, a request number that has been issued and is not blocked (the call was answered: it was
granted earlier, or it gave up - wait time-out, cancel, disconnect - or a restart ended it) is never blocked
again and no later operation of any continuation answers it - with a grant or with anything else: every
completion event of every operation belongs to a call that is blocked at that moment (`Core.step_evok`), so a
call is never answered after it has returned -/
theorem abandoned_never_granted (ho : o.Lawful) (ops more : List Op) (q : Nat) (hg : Gone q (Core.run o c ops))
    (op : Op) (k : Core.Str) (e : Option Err) :
    Gone q (Core.run o c (ops ++ more)) ∧ (∀ b, Event.done q b k e ∉ (Core.step o c (Core.run o c (ops ++ more)) op).2.events) := by
  have hrun : Core.run o c (ops ++ more) = more.foldl (fun s op => (Core.step o c s op).1) (Core.run o c ops) := by
    unfold Core.run; rw [List.foldl_append]
  have hgone : Gone q (Core.run o c (ops ++ more)) := by
    rw [hrun]
    have key : ∀ (xs : List Op) (s0 : Core.St M), Gone q s0 → Gone q (xs.foldl (fun s op => (Core.step o c s op).1) s0) := by
      intro xs
      induction xs with
      | nil => intro s0 h0; exact h0
      | cons x xs ih => intro s0 h0; simp only [List.foldl_cons]; exact ih _ (step_gone h0 x)
    exact key more _ hg
  refine ⟨hgone, ?_⟩
  intro b hmem
  obtain ⟨hu, hq⟩ := run_pq (c := c) ho (ops ++ more)
  exact hgone.not_answered (step_evok ho hu hq op _ hmem) b k e rfl

/-- **a blocked call is answered at most once**: if an operation of a history answers request `q` - with a grant or
with an error - then `q` is not blocked afterwards and no operation of any continuation answers `q` again -/
theorem answered_at_most_once (ho : o.Lawful) (ops more : List Op) (op0 : Op) (q : Nat) (b0 : Bool) (k0 : Core.Str) (e0 : Option Err)
    (h0 : Event.done q b0 k0 e0 ∈ (Core.step o c (Core.run o c ops) op0).2.events)
    (op : Op) (b : Bool) (k : Core.Str) (e : Option Err) :
    Event.done q b k e ∉ (Core.step o c (Core.run o c ((ops ++ [op0]) ++ more)) op).2.events := by
  obtain ⟨hu, hq⟩ := run_pq (c := c) ho ops
  have hg : Gone q (Core.run o c (ops ++ [op0])) := by
    have : Core.run o c (ops ++ [op0]) = (Core.step o c (Core.run o c ops) op0).1 := by
      unfold Core.run; rw [List.foldl_append]; rfl
    rw [this]
    exact step_answered_gone ho hu hq op0 q b0 k0 e0 h0
  exact (abandoned_never_granted ho (ops ++ [op0]) more q hg op k e).2 b

/-- giving up makes a call gone: after its cancellation nothing with its request number is blocked -/
theorem cancel_makes_gone (ops : List Op) (p : Pending) (hp : p ∈ (Core.run o c ops).pending) :
    Gone p.req (Core.step o c (Core.run o c ops) (.cancel p.req)).1 := by
  have hu := run_pu (o := o) (c := c) ops
  simp only [Core.step]
  split
  · rename_i hnone
    have := List.find?_eq_none.mp hnone p hp
    simp at this
  · rename_i p' hf
    have hreq : p'.req = p.req := by simpa using List.find?_some hf
    refine ⟨hu.2 p hp, ?_⟩
    intro x hx
    unfold abandon at hx
    have := (List.mem_filter.mp hx).2
    simp only [ne_eq, decide_eq_true_eq] at this
    rw [← hreq]; exact this

/-- **a blocked call returns when its client disconnects**: the session end answers every blocked call of that
session with an error, and none of them is blocked afterwards (so, by `abandoned_never_granted`, none is ever
granted) -/
theorem disconnect_answers_waiters (s : Core.St M) (sid : Sid) (p : Pending) (hp : p ∈ s.pending) (hs : p.sid = sid) :
    Event.done p.req false p.key (some .canceled) ∈ (Core.step o c s (.disconnect sid)).2.events ∧
    ∀ x ∈ (Core.step o c s (.disconnect sid)).1.pending, x.req ≠ p.req := by
  have hin : p ∈ s.pending.filter (fun p => p.sid = sid) := List.mem_filter.mpr ⟨hp, by simp [hs]⟩
  obtain ⟨h1, h2, _⟩ := Ldlm.Props.C11.abandonAll_pending o (s.pending.filter (fun p => p.sid = sid)) s [] .canceled
  simp only [Core.step]
  refine ⟨List.mem_append_left _ (h2 p hin), ?_⟩
  intro x hx
  have hx1 := (shr_destroy (o := o) (c := c) _ sid).1.subset hx
  unfold abandonAll at hx1
  rw [h1] at hx1
  have := (List.mem_filter.mp hx1).2
  have := List.all_eq_true.mp this p hin
  simpa using this

/-- … and the units the ending session frees go to OTHER sessions' waiters only: no blocked call of the ending
session is granted by its own session end (sequentially there is no "late grant": K2 needs a grant already in
flight) -/
theorem session_end_grants_no_own_waiter (ho : o.Lawful) (ops : List Op) (sid : Sid) (q : Nat) (k : Core.Str) (e : Option Err)
    (hq : ∃ p ∈ (Core.run o c ops).pending, p.req = q ∧ p.sid = sid) :
    Event.done q true k e ∉ (Core.step o c (Core.run o c ops) (.disconnect sid)).2.events := by
  obtain ⟨p, hp, hreq, hsid⟩ := hq
  obtain ⟨hu, hqp⟩ := run_pq (c := c) ho ops
  generalize Core.run o c ops = s at hp hu hqp
  intro hmem
  simp only [Core.step] at hmem
  have hin : p ∈ s.pending.filter (fun p => p.sid = sid) := List.mem_filter.mpr ⟨hp, by simp [hsid]⟩
  have hok : ∀ x ∈ s.pending.filter (fun p => p.sid = sid), Okp x s := fun x hx => Or.inl (List.mem_filter.mp hx).1
  rcases List.mem_append.mp hmem with h1 | h2
  · -- the answers of the abandoned calls are errors
    rcases evok_abandonAll (o := o) _ _ s [] s (fun x hx => (List.mem_filter.mp hx).1) (by intro ev hev; cases hev) _ h1 with ⟨x, _, ex⟩ | ⟨x, _, e', ex⟩
    · have hx := (Ldlm.Props.C11.abandonAll_events o (s.pending.filter (fun p => p.sid = sid)) s [] .canceled (by intro y hy; cases hy)) _ h1
      obtain ⟨r, k', ey⟩ := hx
      cases ey
    · cases ex
  · -- the clean-up grants only calls still blocked after the session's own calls were abandoned
    have := evok_destroy (c := c) ho (pu_abandonAll _ _ [] hu) (abandonAll_q ho _ _ [] hu hqp hok) sid _ h2
    obtain ⟨h1', _, _⟩ := Ldlm.Props.C11.abandonAll_pending o (s.pending.filter (fun p => p.sid = sid)) s [] .canceled
    rcases this with ⟨x, hx, ex⟩ | ⟨x, hx, e', ex⟩
    · cases ex
      rw [h1'] at hx
      have hall := (List.mem_filter.mp hx).2
      have := List.all_eq_true.mp hall p hin
      simp [hreq] at this
    · cases ex

/-! non-vacuity (timed): s1 holds "a"; s2's Lock with a 3 s wait timeout blocks; an advance of 2.999… s answers
nothing and leaves it blocked; an advance of 3 s answers LockWaitTimeout and leaves nobody blocked -/
def cfgW : Cfg := { gcInterval := 0, gcMinIdle := 0, dlt := 600 * sec, noClear := false, hasFile := true,
                    genKey := fun n => 75 :: natDigits n }
def stW : St (List (Core.Str × LockRec)) :=
  run flatOps cfgW [.connect [115, 49], .connect [115, 50], .tryLock (some [115, 49]) [97] none none,
                    .lock (some [115, 50]) [97] none none (some 3)]
example : stW.pending.map (fun p => (p.req, p.deadline)) = [(1, some 3000000000)] := by decide
example : (step flatOps cfgW stW (.advance 2999999999)).2.events = [] ∧
          (step flatOps cfgW stW (.advance 2999999999)).1.pending.length = 1 := by decide
example : (step flatOps cfgW stW (.advance 3000000000)).2.events = [.done 1 false [75, 49] (some .waitTimeout)] ∧
          (step flatOps cfgW stW (.advance 3000000000)).1.pending = [] ∧
          (step flatOps cfgW stW (.advance 3000000000)).2.tie = false := by decide

/-! non-vacuity of `abandoned_never_granted`: after the time-out request 1 is gone; the holder's Unlock then
grants nobody, and request 1 stays gone -/
def stG : St (List (Core.Str × LockRec)) := (step flatOps cfgW stW (.advance 3000000000)).1
example : stG.nreq = 2 ∧ stG.pending = [] := by decide
example : (step flatOps cfgW stG (.unlock (some [115, 49]) [97] [75, 48])).2.ok = true ∧
          (step flatOps cfgW stG (.unlock (some [115, 49]) [97] [75, 48])).2.events = [] := by decide

end Ldlm.Props.C03
