module verif/tools/instr

go 1.26
