package seq

import (
	"strconv"
	"syscall"
	"context"
	"encoding/json"
	"fmt"
	"os"
	"path/filepath"
	"regexp"
	"sort"
	"strings"
	"sync"
	"time"
	"testing"
	"testing/synctest"

	"verif/harness/common"
	"verif/harness/impl"
)

type Step struct {
	Op     impl.Op
	Resp   impl.Resp
	Impl   string
	View   impl.View
	Before *impl.View
	Now    int64
}

type History struct {
	Idx    int
	Cfg    impl.Cfg
	Steps  []Step
	Fatal  string // start-up failure or panic that ended the history
	Model  []string
	TieAt  int
	DisAt  int
	current    string // the operation being executed (watchdog)
	EmptyStart string // C09/C10: result of a start-up on a zero-length state file ("" = started; "-" = not probed)
}

func (h *History) Ops() []impl.Op {
	ops := make([]impl.Op, len(h.Steps))
	for i, s := range h.Steps {
		ops[i] = s.Op
	}
	return ops
}

// opSource yields operations: the generator, or a fixed list (replays, corpus, witnesses).
type opSource interface {
	Next() (impl.Op, bool)
	Observe(impl.Op, impl.Resp, int64)
}

type genSource struct {
	g    *Gen
	left int
}

func (s *genSource) Next() (impl.Op, bool) {
	if s.left <= 0 {
		return impl.Op{}, false
	}
	s.left--
	return s.g.Next(), true
}
func (s *genSource) Observe(o impl.Op, r impl.Resp, now int64) { s.g.Observe(o, r, now) }

type fixedSource struct {
	ops []impl.Op
	i   int
}

func (s *fixedSource) Next() (impl.Op, bool) {
	if s.i >= len(s.ops) {
		return impl.Op{}, false
	}
	s.i++
	return s.ops[s.i-1], true
}
func (s *fixedSource) Observe(impl.Op, impl.Resp, int64) {}

// runImpl executes one history on the real server inside a fresh bubble. detie inserts a tiny
// advance after every operation so that no two dependent deadlines share a nanosecond.
// watchdog (common.Watchdog): histories in progress, for the replay of a call that never returns
var (
	wdTick     = func() {}
	wdInflight sync.Map // idx → *History
)

func runImpl(t *testing.T, idx int, cfg impl.Cfg, src opSource, detie *common.Rng) (h *History) {
	h = &History{Idx: idx, Cfg: cfg, TieAt: -1, DisAt: -1, EmptyStart: "-"}
	wdInflight.Store(idx, h)
	defer wdInflight.Delete(idx)
	dir, err := os.MkdirTemp(common.TempDir(), "h")
	if err != nil {
		t.Fatal(err)
	}
	defer os.RemoveAll(filepath.Dir(dir))
	defer func() {
		// a server.New that panics half-way leaves its manager's GC goroutine behind with nobody
		// holding a closer for it; synctest reports that as a deadlock when the bubble ends
		if r := recover(); r != nil {
			if h.Fatal == "" || !strings.Contains(fmt.Sprint(r), "deadlock") {
				panic(r)
			}
		}
	}()
	synctest.Test(t, func(t *testing.T) {
		im := impl.New(cfg, dir)
		if im.StartErr != nil {
			h.Fatal = "start: " + im.StartErr.Error()
			return
		}
		defer im.Close()
		exec := func(o impl.Op) bool {
			wdTick()
			h.current = o.Line()
			before := im.Snapshot()
			r := im.Exec(o)
			if r.Panic != "" {
				h.Steps = append(h.Steps, Step{Op: o, Resp: r, Before: &before, Impl: "panic " + r.Panic, Now: im.Now()})
				h.Fatal = "panic in " + o.Kind + ": " + r.Panic
				return false
			}
			if im.StartErr != nil {
				h.Steps = append(h.Steps, Step{Op: o, Resp: r, Before: &before, Impl: "start-failed " + im.StartErr.Error(), Now: im.Now()})
				h.Fatal = "restart: " + im.StartErr.Error()
				return false
			}
			v := im.Snapshot()
			if o.Kind == "ipcunlock" && o.Key == "" && r.Ok {
				// which hold of that name did the implementation pick (Go map order decides)?
				gone := map[string]bool{}
				for _, hs := range before.Listing {
					for _, hd := range hs {
						gone[hd] = true
					}
				}
				for _, hs := range v.Listing {
					for _, hd := range hs {
						delete(gone, hd)
					}
				}
				for hd := range gone {
					f := strings.Split(hd, "/")
					if len(f) == 3 && f[0] == impl.Tok(o.Name) {
						o.Chosen = impl.UnTok(f[1])
					}
				}
			}
			h.Steps = append(h.Steps, Step{Op: o, Resp: r, Impl: im.Line(r, v), View: v, Before: &before, Now: im.Now()})
			src.Observe(o, r, im.Now())
			return true
		}
		for {
			o, ok := src.Next()
			if !ok {
				break
			}
			if !exec(o) {
				return
			}
			if detie != nil && o.Kind != "adv" {
				if !exec(impl.Op{Kind: "adv", D: int64(1 + detie.Intn(9))}) {
					return
				}
			}
		}
		// the image a kill between Truncate(0) and Write of a rewrite leaves behind (K3) is a file the
		// server itself produced: the next start must come up on it (with nothing to restore)
		if p := common.Prop(); cfg.File && (p == "C10" || p == "C09") && idx%8 == 0 {
			ep := filepath.Join(dir, "empty-state")
			if err := os.WriteFile(ep, nil, 0o644); err == nil {
				h.EmptyStart = impl.ProbeStart(cfg, ep)
			}
		}
	})
	return h
}

// ---------------------------------------------------------------- model side

var tieRe = regexp.MustCompile(` tie=[01]`)

func runModel(hs []*History) error {
	lines := []string{}
	for _, h := range hs {
		lines = append(lines, h.Cfg.Line())
		for _, s := range h.Steps {
			lines = append(lines, s.Op.Line())
		}
		lines = append(lines, "end")
	}
	out, err := common.LeanBatch([]string{"seq"}, lines)
	if err != nil {
		return err
	}
	i := 0
	for _, h := range hs {
		if out[i] != "cfg-ok" {
			return fmt.Errorf("model rejected cfg line %q: %s", h.Cfg.Line(), out[i])
		}
		i++
		for range h.Steps {
			h.Model = append(h.Model, out[i])
			i++
		}
		i++ // end-ok
	}
	return nil
}

// channels splits a response line into named channels.
func channels(line string) map[string]string {
	m := map[string]string{}
	parts := strings.Split(line, " | ")
	m["r"] = tieRe.ReplaceAllString(parts[0], "")
	for _, p := range parts[1:] {
		if i := strings.IndexByte(p, '='); i > 0 {
			m[p[:i]] = p[i+1:]
		}
	}
	// the idle clock is its own channel
	if t, ok := m["T"]; ok {
		la := []string{}
		tt := []string{}
		for _, e := range strings.Split(t, ";") {
			if j := strings.LastIndex(e, ":la="); j >= 0 {
				la = append(la, e[j+4:])
				e = e[:j]
			}
			tt = append(tt, e)
		}
		m["T"], m["LA"] = strings.Join(tt, ";"), strings.Join(la, ";")
		// the holds in the table (lock objects without a holder left out: whether an unheld object is
		// still there is garbage collection's business, C13)
		th := []string{}
		for _, e := range tt {
			if e != "" && !strings.HasSuffix(e, ":[]") {
				th = append(th, e)
			}
		}
		m["TH"] = strings.Join(th, ";")
	}
	return m
}

// which channels a property's tie owns (DESIGN §6)
var owned = map[string][]string{
	"C01": {"r", "TH"},
	"C03": {"r", "P", "now"},
	"C04": {"r", "TH", "TM", "now"},
	"C07": {"r", "L", "T", "F", "TM", "P"},
	"C08": {"L", "TH", "F"},
	"C09": {"L", "F"},
	"C10": {"r", "L", "TH", "F", "TM"},
	"C06": {"r", "L", "TH", "TM", "P"},
	"C12": {"r"},
	"C13": {"r", "T", "LA"},
	"C18": {"r", "L", "TH", "F", "TM"},
	"":    {"r", "L", "T", "F", "TM", "P", "LA", "now"},
}

func compare(prop string, h *History, res *common.Result) {
	chs, ok := owned[prop]
	if !ok {
		chs = owned[""]
	}
	for i, s := range h.Steps {
		if i >= len(h.Model) {
			break
		}
		if strings.Contains(h.Model[i], " tie=1") {
			h.TieAt = i
			res.Count("history-truncated-at-tie")
			return
		}
		if strings.HasPrefix(s.Impl, "panic ") || strings.HasPrefix(s.Impl, "start-failed ") {
			h.DisAt = i
			res.Find(common.Finding{Kind: "disagreement", Property: prop, Signature: "seq:" + strings.SplitN(s.Impl, " ", 2)[0],
				What:   "the implementation " + s.Impl + " where the model answers " + h.Model[i],
				Replay: replay(h, i, "r")})
			return
		}
		a, b := channels(s.Impl), channels(h.Model[i])
		for _, c := range chs {
			if a[c] != b[c] {
				h.DisAt = i
				res.Find(common.Finding{Kind: "disagreement", Property: prop, Signature: "seq:channel:" + c,
					What:   fmt.Sprintf("model and implementation differ in channel %s after %q: impl %q, model %q", c, s.Op.Line(), a[c], b[c]),
					Replay: replay(h, i, c)})
				return
			}
		}
	}
}

func replay(h *History, at int, channel string) map[string]any {
	m := map[string]any{"cfg": h.Cfg, "cfg_line": h.Cfg.Line(), "ops": h.Ops()[:at+1], "at": at, "channel": channel}
	lines := []string{}
	for _, s := range h.Steps[:at+1] {
		lines = append(lines, s.Op.Line())
	}
	m["op_lines"] = lines
	m["impl"] = h.Steps[at].Impl
	if at < len(h.Model) {
		m["model"] = h.Model[at]
	}
	return m
}

// ---------------------------------------------------------------- the stream

func profileFor(prop string) Profile {
	p := DefaultProfile
	switch prop {
	case "C18":
		p.Ipc = 12
	case "C12":
		p.Invalid = 35
		p.NoSessionReq = 2
		p.WideNames = true
		p.Colliding = true
	case "C13":
		p.Gc = 12
		p.GcOn = true
		p.Restart = 1
		p.StableSizes = true
	case "C04":
		p.RenewW = 30
		p.NameCount = 2
		p.LeaseFocus = true
		p.Invalid = 5
		p.Ops = 60
		p.Restart = 1
		p.Foreign = 10
	case "C09":
		p.Restart = 10
		p.FixedCfg = nil
	case "C06":
		p.Disc = 14
		p.LeaseFocus = true
		p.Invalid = 5
		p.Restart = 1
	case "C10":
		p.Restart = 8
		p.InjectFile = 35
	case "C01", "C08":
		// restarts from files that record more than fits (left by a kill, C09): what is not re-acquired
		// must not stay listed, what is listed must fit
		p.Restart = 6
		p.InjectFile = 35
	case "C03":
		p.Blocking = 30
	case "C07":
		p.Invalid = 25
		p.NoSessionReq = 2
		p.Colliding = true
	}
	if common.Thorough() {
		p.Ops = 120
	}
	return p
}

func TestSeq(t *testing.T) {
	prop := common.Prop()
	res := common.NewResult("seq")
	res.Rule = "random state-aware histories (connect/trylock/lock/unlock/renew/advance/disconnect/restart/gc/admin unlock; adversarial names and keys; time steps to deadline-1ns, deadline, deadline+1ns) executed on the real LockServer in virtual time and on the Lean model; distinct = distinct (config, op sequence); non-trivial = at least one grant and one of {release, expiry, restart, failed request}"
	defer func() {
		if err := res.Write(); err != nil {
			t.Fatal(err)
		}
	}()

	if rp := os.Getenv("VERIF_REPLAY"); rp != "" {
		replayFile(t, prop, rp, res)
		return
	}

	wdTick = common.Watchdog(res, prop, "seq:deadlock:call-never-returns", 90*time.Second, func() any {
		out := []map[string]any{}
		wdInflight.Range(func(_, v any) bool {
			h := v.(*History)
			lines := []string{}
			for _, s := range h.Steps {
				lines = append(lines, s.Op.Line())
			}
			out = append(out, map[string]any{"cfg": h.Cfg.Line(), "ops_done": lines, "operation_that_never_returned": h.current})
			return len(out) < 4
		})
		return map[string]any{"histories_in_progress": out}
	})
	n := common.EnvInt("VERIF_HISTORIES", 1000)
	if common.Thorough() {
		n = common.EnvInt("VERIF_HISTORIES", 6000)
	}
	prof := profileFor(prop)
	root := common.NewRng(common.Seed())
	seeds := make([]uint64, n)
	for i := range seeds {
		seeds[i] = root.U64()
	}
	hs := make([]*History, n)
	var mu sync.Mutex
	t.Run("impl", func(t *testing.T) {
		for w := 0; w < 16; w++ {
			w := w
			t.Run(fmt.Sprint("w", w), func(t *testing.T) {
				t.Parallel()
				for i := w; i < n; i += 16 {
					r := common.NewRng(seeds[i])
					g := NewGen(r.Fork(1), prof)
					h := runImpl(t, i, g.Cfg(), &genSource{g: g, left: prof.Ops}, r.Fork(2))
					mu.Lock()
					hs[i] = h
					mu.Unlock()
				}
			})
		}
	})
	if prop == "C12" {
		shardReplay(t, hs, res)
	}
	if prop == "C13" {
		neverLockedProbe(t, res)
		gcMetamorphic(t, hs, res)
	}
	if prop == "C10" {
		smallDefaultLeaseProbe(t, res)
	}
	if prop == "C09" {
		writeFailureProbe(t, res)
	}
	if prop == "C07" {
		inertMetamorphic(t, hs, res)
	}
	// corpus and witnesses first in the list so they are always compared and monitored
	hs = append(corpus(t, prop), hs...)
	if err := runModel(hs); err != nil {
		t.Fatal(err)
	}
	for _, h := range hs {
		compare(prop, h, res)
		monitor(prop, h, res)
		account(h, res)
	}
}

func account(h *History, res *common.Result) {
	var sb strings.Builder
	sb.WriteString(h.Cfg.Line())
	grants, ends := 0, 0
	for _, s := range h.Steps {
		sb.WriteString("\n" + s.Op.Line())
		res.Count("op:" + s.Op.Kind)
		if s.Resp.Err != "-" && s.Resp.Err != "" {
			res.Count("err:" + s.Resp.Err)
			ends++
		}
		if s.Resp.Ok && (s.Op.Kind == "trylock" || s.Op.Kind == "lock") {
			grants++
		}
		if s.Resp.Ok && (s.Op.Kind == "unlock" || s.Op.Kind == "ipcunlock") || s.Op.Kind == "restart" || s.Op.Kind == "restartwith" {
			ends++
		}
		if s.Resp.Pending {
			res.Count("blocked-lock-calls")
		}
		for _, e := range s.Resp.Events {
			f := strings.Split(e, ":")
			res.Count("completion:" + f[len(f)-1])
		}
		if s.Before != nil && len(s.Before.Table) > 0 && s.Op.Kind == "adv" {
			nb, na := 0, 0
			for _, l := range s.Before.Table {
				nb += len(l.Keys)
			}
			for _, l := range s.View.Table {
				na += len(l.Keys)
			}
			if na < nb {
				res.Count("lease-expiries-observed")
				ends++
			}
		}
	}
	res.Count(fmt.Sprintf("cfg:shards=%d", h.Cfg.Shards))
	res.Count(fmt.Sprintf("cfg:noclear=%v", h.Cfg.NoClear))
	res.Count(fmt.Sprintf("cfg:file=%v", h.Cfg.File))
	if h.Fatal != "" {
		res.Count("history-ended-by:" + strings.SplitN(h.Fatal, ":", 2)[0])
	}
	res.Eval(sb.String(), grants > 0 && ends > 0)
	if h.Idx%97 == 0 && len(h.Steps) > 0 {
		ls := []string{h.Cfg.Line()}
		for i, s := range h.Steps {
			if i >= 14 {
				ls = append(ls, "…")
				break
			}
			ls = append(ls, s.Op.Line()+"  ⇒  "+strings.SplitN(s.Impl, " | ", 2)[0])
		}
		res.Sample(ls)
	}
}

// ---------------------------------------------------------------- replay / corpus

type replayFileT struct {
	Replay struct {
		Cfg impl.Cfg  `json:"cfg"`
		Ops []impl.Op `json:"ops"`
	} `json:"replay"`
}

func replayFile(t *testing.T, prop, path string, res *common.Result) {
	b, err := os.ReadFile(path)
	if err != nil {
		t.Fatal(err)
	}
	var rf replayFileT
	if err := json.Unmarshal(b, &rf); err != nil {
		t.Fatal(err)
	}
	h := runImpl(t, 0, rf.Replay.Cfg, &fixedSource{ops: rf.Replay.Ops}, nil)
	if err := runModel([]*History{h}); err != nil {
		t.Fatal(err)
	}
	compare(prop, h, res)
	monitor(prop, h, res)
	account(h, res)
	for i, s := range h.Steps {
		m := ""
		if i < len(h.Model) {
			m = h.Model[i]
		}
		fmt.Printf("%-40s\n   impl : %s\n   model: %s\n", s.Op.Line(), s.Impl, m)
	}
}

// corpus: minimised past failures and the witnesses of recorded findings (corpus/*.json), each a
// {cfg, ops} object; they run first on every invocation.
func corpus(t *testing.T, prop string) []*History {
	root := os.Getenv("VERIF_ROOT")
	if root == "" {
		root = "/verif"
	}
	files, _ := filepath.Glob(filepath.Join(root, "corpus", "seq-*.json"))
	sort.Strings(files)
	out := []*History{}
	for i, f := range files {
		b, err := os.ReadFile(f)
		if err != nil {
			continue
		}
		var c struct {
			Cfg   impl.Cfg  `json:"cfg"`
			Ops   []impl.Op `json:"ops"`
			Props []string  `json:"props"`
		}
		if json.Unmarshal(b, &c) != nil {
			continue
		}
		if len(c.Props) > 0 && !contains(c.Props, prop) {
			continue
		}
		out = append(out, runImpl(t, -1-i, c.Cfg, &fixedSource{ops: c.Ops}, nil))
	}
	return out
}


// shardReplay (C12): every history is replayed on the real server under the other shard counts; the
// response stream must be identical (implementation against implementation, no model involved).
func shardReplay(t *testing.T, hs []*History, res *common.Result) {
	counts := []uint32{0, 1, 3, 16, 100, 1000} // powers of two and others
	var mu sync.Mutex
	t.Run("shards", func(t *testing.T) {
		for w := 0; w < 16; w++ {
			w := w
			t.Run(fmt.Sprint("w", w), func(t *testing.T) {
				t.Parallel()
				for i := w; i < len(hs); i += 16 {
					h := hs[i]
					if h == nil || h.Fatal != "" {
						continue
					}
					for _, n := range counts {
						if n == h.Cfg.Shards {
							continue
						}
						cfg := h.Cfg
						cfg.Shards = n
						g := runImpl(t, h.Idx, cfg, &fixedSource{ops: h.Ops()}, nil)
						mu.Lock()
						res.Count("shard-replays")
						for j := range h.Steps {
							if j >= len(g.Steps) {
								break
							}
							a, b := channels(h.Steps[j].Impl), channels(g.Steps[j].Impl)
							if a["r"] != b["r"] || a["L"] != b["L"] || a["T"] != b["T"] {
								rp := replay(h, j, "r")
								rp["shards_a"], rp["shards_b"] = h.Cfg.Shards, n
								rp["impl_b"] = g.Steps[j].Impl
								rp["model_agrees"] = false
								res.Find(common.Finding{Kind: "violation", Property: "C12", Signature: "seq:shard-dependence",
									What:   fmt.Sprintf("the same history answers differently with %d and with %d shards after %q: %q vs %q", h.Cfg.Shards, n, h.Steps[j].Op.Line(), a["r"], b["r"]),
									Replay: rp})
								break
							}
						}
						mu.Unlock()
					}
				}
			})
		}
	})
}


// gcMetamorphic (C13): every history (sizes are a function of the name, so re-creation with another
// size cannot happen) is replayed on the real server with garbage collection switched off; every
// client-visible response must be identical. Implementation against implementation.
func gcMetamorphic(t *testing.T, hs []*History, res *common.Result) {
	var mu sync.Mutex
	t.Run("nogc", func(t *testing.T) {
		for w := 0; w < 16; w++ {
			w := w
			t.Run(fmt.Sprint("w", w), func(t *testing.T) {
				t.Parallel()
				for i := w; i < len(hs); i += 16 {
					h := hs[i]
					if h == nil || h.Fatal != "" {
						continue
					}
					cfg := h.Cfg
					cfg.GcInt = 1000 * 3600 * 1e9
					ops := h.Ops()
					for j := range ops {
						if ops[j].Kind == "gc" {
							ops[j] = impl.Op{Kind: "adv", D: 0}
						}
					}
					g := runImpl(t, h.Idx, cfg, &fixedSource{ops: ops}, nil)
					mu.Lock()
					res.Count("gc-off-replays")
					for j := range h.Steps {
						if j >= len(g.Steps) || (h.TieAt >= 0 && j >= h.TieAt) {
							break
						}
						a, b := channels(h.Steps[j].Impl)["r"], channels(g.Steps[j].Impl)["r"]
						if a == b {
							continue
						}
						sig := "seq:gc-visible:response"
						// the one recorded difference: a FAILING Unlock names a different reason
						ea, eb := h.Steps[j].Resp.Err, g.Steps[j].Resp.Err
						if (h.Steps[j].Op.Kind == "unlock" || h.Steps[j].Op.Kind == "ipcunlock") && !h.Steps[j].Resp.Ok && !g.Steps[j].Resp.Ok &&
							ea == "LockDoesNotExist" && eb == "InvalidLockKey" {
							sig = "seq:gc-visible:failing-unlock-error-code"
						}
						rp := replay(h, j, "r")
						rp["without_gc"] = g.Steps[j].Impl
						rp["model_agrees"] = h.DisAt < 0 || h.DisAt > j
						res.Find(common.Finding{Kind: "violation", Property: "C13", Signature: sig,
							What:   fmt.Sprintf("with garbage collection %q answers %q, without it %q", h.Steps[j].Op.Line(), a, b),
							Replay: rp})
						if sig == "seq:gc-visible:response" {
							break
						}
					}
					mu.Unlock()
				}
			})
		}
	})
}

// inertMetamorphic (C07): every history that contains a request answered with an error is replayed
// on the real server WITHOUT that request (its request number and the clock are kept); every later
// answer, the listing, the state file, the lease timers and the blocked calls must be the same: a
// failed request has no effect on anything that follows. Failed Unlocks with a wrong key on an existing
// lock are not left out (they restart the lock's idle period, see below); the lock table's idle clock
// is not compared; K11 (C13: a failing Unlock names a different reason after a collection) is skipped.
func inertMetamorphic(t *testing.T, hs []*History, res *common.Result) {
	var mu sync.Mutex
	t.Run("inert", func(t *testing.T) {
		for w := 0; w < 16; w++ {
			w := w
			t.Run(fmt.Sprint("w", w), func(t *testing.T) {
				t.Parallel()
				for i := w; i < len(hs); i += 16 {
					h := hs[i]
					if h == nil || h.Fatal != "" {
						continue
					}
					// the failed requests of this history (at most 3 are left out, one replay each)
					cand := []int{}
					for j, s := range h.Steps {
						k := s.Op.Kind
						if (k == "trylock" || k == "lock" || k == "unlock" || k == "renew") && s.Resp.Err != "-" && !s.Resp.Pending && s.Resp.Panic == "" && len(s.Resp.Events) == 0 {
							if k == "unlock" && s.Resp.Err == "InvalidLockKey" {
								// an Unlock with a wrong key on an EXISTING lock is an access: it restarts the lock's idle
								// period, which may move a later collection (not a hold, lease, waiter or bookkeeping entry)
								continue
							}
							cand = append(cand, j)
						}
					}
					for n, f := range cand {
						if n >= 3 {
							break
						}
						ops := h.Ops()
						if k := ops[f].Kind; k == "trylock" || k == "lock" {
							ops[f] = impl.Op{Kind: "skipreq"}
						} else {
							ops[f] = impl.Op{Kind: "adv", D: 0}
						}
						g := runImpl(t, h.Idx, h.Cfg, &fixedSource{ops: ops}, nil)
						mu.Lock()
						res.Count("inert-replays")
						for j := f + 1; j < len(h.Steps) && j < len(g.Steps); j++ {
							a, b := channels(h.Steps[j].Impl), channels(g.Steps[j].Impl)
							bad := ""
							for _, c := range []string{"r", "L", "F", "TM", "P"} {
								if a[c] != b[c] {
									bad = c
									break
								}
							}
							if bad == "" {
								continue
							}
							ea, eb := h.Steps[j].Resp.Err, g.Steps[j].Resp.Err
							if bad == "r" && (h.Steps[j].Op.Kind == "unlock" || h.Steps[j].Op.Kind == "ipcunlock") && !h.Steps[j].Resp.Ok && !g.Steps[j].Resp.Ok &&
								((ea == "LockDoesNotExist" && eb == "InvalidLockKey") || (eb == "LockDoesNotExist" && ea == "InvalidLockKey")) {
								res.Count("inert-replay:K11-error-code-difference-skipped")
								break // K11 (C13): the histories have diverged in what was collected
							}
							rp := replay(h, j, bad)
							rp["failed_request_at"] = f
							rp["failed_request"] = h.Steps[f].Op.Line()
							rp["failed_request_answer"] = h.Steps[f].Impl
							rp["without_it"] = g.Steps[j].Impl
							rp["model_agrees"] = h.DisAt < 0 || h.DisAt > j
							res.Find(common.Finding{Kind: "violation", Property: "C07", Signature: "seq:inert:later-" + bad,
								What:   fmt.Sprintf("the failed request %q (answer %q) changed what follows: %q gives %q with it and %q without it (channel %s)", h.Steps[f].Op.Line(), channels(h.Steps[f].Impl)["r"], h.Steps[j].Op.Line(), a[bad], b[bad], bad),
								Replay: rp})
							break
						}
						mu.Unlock()
					}
				}
			})
		}
	})
}


// writeFailureProbe (C09): the state file stops accepting writes while the server runs (its descriptor is
// swapped for a read-only one: every Write fails as on a full disk or a revoked mount). Whatever the server
// then does - die, refuse - a request it ANSWERS with success must be in the file it leaves: the image is
// recovered by a fresh server and compared with the acknowledged grants and releases. Runs on the real server
// in virtual time; Linux only (/proc/self/fd).
func writeFailureProbe(t *testing.T, res *common.Result) {
	for _, second := range []string{"trylock", "lock", "unlock"} {
		second := second
		synctest.Test(t, func(t *testing.T) {
			cfg := impl.Cfg{Shards: 4, GcInt: time.Hour, GcIdle: time.Hour, Dlt: 10 * time.Minute, File: true}
			dir := common.TempDir()
			defer os.RemoveAll(dir)
			im := impl.New(cfg, dir)
			defer func() {
				defer func() { recover() }() // a server that panicked on the failed write may not close cleanly
				im.Close()
			}()
			lines := []string{}
			run := func(o impl.Op) impl.Resp {
				r := im.Exec(o)
				lines = append(lines, fmt.Sprintf("%s -> ok=%v err=%s panic=%q", o.Line(), r.Ok, r.Err, r.Panic))
				return r
			}
			run(impl.Op{Kind: "connect", Sid: "s1"})
			a := run(impl.Op{Kind: "trylock", Sid: "s1", Name: "alpha"})
			b0 := run(impl.Op{Kind: "trylock", Sid: "s1", Name: "beta"})
			if !a.Ok || !b0.Ok {
				return
			}
			// swap the descriptor of the state file for a read-only one
			swapped := false
			fds := []int{}
			swap := func(mode int) {
				for _, fd := range fds {
					if nf, err := syscall.Open(im.StatePath, mode, 0); err == nil {
						if syscall.Dup3(nf, fd, 0) == nil {
							swapped = true
						}
						syscall.Close(nf)
					}
				}
			}
			if ents, err := os.ReadDir("/proc/self/fd"); err == nil {
				for _, e := range ents {
					if l, err := os.Readlink("/proc/self/fd/" + e.Name()); err == nil && l == im.StatePath {
						fd, _ := strconv.Atoi(e.Name())
						fds = append(fds, fd)
					}
				}
			}
			swap(syscall.O_RDONLY)
			defer swap(syscall.O_RDWR) // writable again before the server is closed
			res.Count(fmt.Sprintf("write-failure-probe:descriptor-swapped=%v", swapped))
			if !swapped {
				return
			}
			lines = append(lines, "(the state file's descriptor is now read-only: every write fails)")
			var r impl.Resp
			switch second {
			case "trylock":
				r = run(impl.Op{Kind: "trylock", Sid: "s1", Name: "gamma"})
			case "lock":
				r = run(impl.Op{Kind: "lock", Sid: "s1", Name: "gamma", Wt: p32(1)})
			case "unlock":
				r = run(impl.Op{Kind: "unlock", Sid: "s1", Name: "beta", Key: "K1"})
			}
			res.Eval("write-failure-probe|"+second, true)
			img, _ := os.ReadFile(im.StatePath)
			// recover the image with a fresh server on a copy
			dir2 := common.TempDir()
			defer os.RemoveAll(dir2)
			os.WriteFile(filepath.Join(dir2, "state"), img, 0o644)
			im2 := impl.New(cfg, dir2)
			defer im2.Close()
			restored := map[string]bool{}
			if im2.LS != nil {
				for _, l := range im2.LS.Locks() {
					restored[l.Name()] = true
				}
			}
			rp := map[string]any{"cfg": cfg.Line(), "ops": lines, "restored_by_the_next_start": common.SortedKeys(restored)}
			switch {
			case (second == "trylock" || second == "lock") && r.Ok && r.Panic == "" && !restored["gamma"]:
				res.Find(common.Finding{Kind: "violation", Property: "C09", Signature: "seq:crash:acked-grant-not-in-file",
					What: fmt.Sprintf("the state file refuses writes; %s of \"gamma\" was nevertheless answered locked=true, and the next start on the file the server left does not restore that hold (restored: %v)", second, common.SortedKeys(restored)), Replay: rp})
			case second == "unlock" && r.Ok && r.Panic == "" && restored["beta"]:
				res.Find(common.Finding{Kind: "violation", Property: "C09", Signature: "seq:crash:acked-release-still-in-file",
					What: "the state file refuses writes; Unlock of \"beta\" was nevertheless answered unlocked=true, and the next start on the file the server left restores that hold", Replay: rp})
			}
			if !restored["alpha"] {
				res.Find(common.Finding{Kind: "violation", Property: "C09", Signature: "seq:crash:acked-grant-not-in-file",
					What: "after a failed write the file the server left no longer restores \"alpha\", whose grant was acknowledged before the failure and which was never released", Replay: rp})
			}
		})
	}
}

// smallDefaultLeaseProbe (C10): "otherwise expires after the configured default lock timeout" for the
// smallest configurations - a default of 0 and of 1 ns: the restored hold is gone as soon as the clock has
// moved past it, and stays gone over a second restart. (The differential histories draw the default from
// 0.8 s upwards: with a zero default the expiry falls on the restart instant itself, where the model
// reports a tie and the harness does not compare.) Runs on the real server in virtual time.
func smallDefaultLeaseProbe(t *testing.T, res *common.Result) {
	for _, d := range []time.Duration{0, 1, time.Millisecond} {
		d := d
		synctest.Test(t, func(t *testing.T) {
			cfg := impl.Cfg{Shards: 4, GcInt: time.Hour, GcIdle: time.Hour, Dlt: d, File: true}
			im := impl.New(cfg, common.TempDir())
			defer im.Close()
			ops := []impl.Op{{Kind: "connect", Sid: "s1"}, {Kind: "trylock", Sid: "s1", Name: "x"}, {Kind: "restart"}, {Kind: "adv", D: int64(time.Second)},
				{Kind: "connect", Sid: "s2"}, {Kind: "renew", Sid: "s2", Name: "x", Key: "K0", T: 5}}
			lines := []string{}
			var renew impl.Resp
			for _, o := range ops {
				r := im.Exec(o)
				lines = append(lines, o.Line()+" -> "+im.Line(r, im.Snapshot()))
				if o.Kind == "renew" {
					renew = r
				}
			}
			res.Count("small-default-lease-probe")
			res.Eval(fmt.Sprintf("small-default-lease-probe|default=%v", d), true)
			listed := len(im.LS.Locks())
			try := im.Exec(impl.Op{Kind: "trylock", Sid: "s2", Name: "x"})
			lines = append(lines, "trylock s2 x -> "+im.Line(try, im.Snapshot()))
			if listed > 0 || !try.Ok {
				res.Find(common.Finding{Kind: "violation", Property: "C10", Signature: "seq:restart:restored-hold-outlives-default-lease",
					What: fmt.Sprintf("default lock timeout %v: 1 s after the restart the restored hold of \"x\" is still there (listed holds: %d, Renew with its key answered ok=%v err=%s, a TryLock of \"x\" answered locked=%v): a restored hold expires after the configured default lock timeout", d, listed, renew.Ok, renew.Err, try.Ok),
					Replay: map[string]any{"cfg": cfg.Line(), "ops": lines}})
			}
		})
	}
}

// neverLockedProbe (C13): a lock object that was created but never locked - its only request was a
// blocking Lock whose caller had already gone away - is an unheld lock like any other: it is collected
// only after it has been idle for the minimum time. Until then a request with another size is refused
// with LockSizeMismatch. (M2 has no "context already cancelled" request, so this runs beside the
// differential histories, on the real server in virtual time.)
func neverLockedProbe(t *testing.T, res *common.Result) {
	for _, mi := range []time.Duration{time.Hour, 10 * time.Second} {
		mi := mi
		synctest.Test(t, func(t *testing.T) {
			cfg := impl.Cfg{Shards: 4, GcInt: time.Second, GcIdle: mi, Dlt: 10 * time.Minute}
			im := impl.New(cfg, common.TempDir())
			defer im.Close()
			ctx, cancel := context.WithCancel(context.Background())
			_, sctx := im.LS.CreateSession(ctx, map[string]any{})
			cancel()
			synctest.Wait()
			two, three := int32(2), int32(3)
			lk, err := im.LS.Lock(sctx, "never-locked", &two, nil, nil)
			res.Count("never-locked-probe")
			res.Eval(fmt.Sprintf("never-locked-probe|min-idle=%v", mi), true)
			if err == nil && lk != nil && lk.Locked {
				return // granted to a caller that is gone: C03 / C06 report that
			}
			time.Sleep(5 * time.Second) // five collection passes, well inside the minimum idle time
			synctest.Wait()
			_, octx := im.LS.CreateSession(context.Background(), map[string]any{})
			lk2, err2 := im.LS.TryLock(octx, "never-locked", &three, nil)
			if impl.ErrName(err2) != "LockSizeMismatch" {
				res.Find(common.Finding{Kind: "violation", Property: "C13", Signature: "seq:gc:never-locked-collected-before-min-idle",
					What: fmt.Sprintf("lock \"never-locked\" was created with size 2 by a Lock whose caller had gone away (answer: %v), idled for 5 s with a minimum idle time of %v, and a TryLock with size 3 then answered locked=%v err=%s instead of LockSizeMismatch: the lock was collected before it had been idle for the minimum time", err, mi, lk2 != nil && lk2.Locked, impl.ErrName(err2)),
					Replay: map[string]any{"cfg": cfg.Line(), "ops": []string{"connect s1", "disconnect s1 (context cancelled)", "lock s1 never-locked size=2 -> " + impl.ErrName(err), "adv 5s", "trylock s2 never-locked size=3 -> " + impl.ErrName(err2)}}})
			}
		})
	}
}
