package restc

// TestRestModel — correspondence of the Lean model M4 (Ldlm/Model/Rest.lean: REST session table in
// front of the lock-server model M2) with the real gateway: random histories of
// create / request / DELETE / gRPC connect / gRPC request / gRPC end / time advance are executed on a
// fresh real server + gateway in virtual time and on the compiled Lean model through the line
// protocol (`driver rest`); after every operation the HTTP status, the decoded answer, the sessions
// ended by idle timers, the hold listing, the lock table, the lease timers and the gateway's session
// table must be equal.
//
//	cd /verif/harness && VERIF_PROP=C20 VERIF_SEED=1 VERIF_TIER=quick VERIF_OUT=/tmp/o.json \
//	  go1.26.8 test -count=1 -vet=off -overlay overlay/exports.json -run '^TestRestModel$' ./restc

import (
	"context"
	"encoding/json"
	"fmt"
	"os"
	"sort"
	"strconv"
	"strings"
	"testing"
	"testing/synctest"
	"time"

	"github.com/imoore76/ldlm/net/rest"
	pb "github.com/imoore76/ldlm/protos"
	"google.golang.org/protobuf/encoding/protojson"

	"verif/harness/common"
	"verif/harness/impl"
)

type mOp struct {
	Kind   string `json:"kind"` // create delete req gconnect greq gend adv
	Ck     string `json:"ck,omitempty"`  // canonical cookie / connection ("R0", "c1"), "-" = none, anything else = garbage verbatim
	Rpc    string `json:"rpc,omitempty"` // trylock unlock renew bad
	Name   string `json:"name,omitempty"`
	Key    string `json:"key,omitempty"` // canonical ("K3") or literal
	Size   *int32 `json:"size,omitempty"`
	Lt     *int32 `json:"lt,omitempty"`
	RenewT int32  `json:"renew_t,omitempty"`
	D      int64  `json:"d,omitempty"`
}

func tokOrDash(s string) string {
	if s == "-" {
		return "-"
	}
	return impl.Tok(s)
}

func (o mOp) line() string {
	rq := func() string {
		switch o.Rpc {
		case "trylock":
			return fmt.Sprintf("trylock %s %s %s", impl.Tok(o.Name), optS(o.Size), optS(o.Lt))
		case "unlock":
			return fmt.Sprintf("unlock %s %s", impl.Tok(o.Name), impl.Tok(o.Key))
		case "renew":
			return fmt.Sprintf("renew %s %s %d", impl.Tok(o.Name), impl.Tok(o.Key), o.RenewT)
		}
		return "bad"
	}
	switch o.Kind {
	case "create", "gconnect":
		return o.Kind
	case "delete":
		return "delete " + tokOrDash(o.Ck)
	case "req":
		return "req " + tokOrDash(o.Ck) + " " + rq()
	case "greq":
		return "greq " + impl.Tok(o.Ck) + " " + rq()
	case "gend":
		return "gend " + impl.Tok(o.Ck)
	}
	return fmt.Sprintf("adv %d", o.D)
}

type mHist struct {
	Timeout time.Duration
	Ops     []mOp
	Impl    []string
	Model   []string
	fatal   string
}

func (h *mHist) cfgLine() string {
	return fmt.Sprintf("rcfg timeout=%d dlt=%d noclear=0 shards=4 gcint=%d gcidle=%d", int64(h.Timeout), int64(10*time.Minute), int64(1000*time.Hour), int64(5*time.Minute))
}

// ---------------------------------------------------------------- generator

type mGen struct {
	r       *common.Rng
	prop    string
	T       time.Duration
	now     time.Duration
	cookies []string                 // every cookie created, canonical
	dl      map[string]time.Duration // believed idle deadline of the sessions believed valid
	conns   []string
	connUp  map[string]bool
	sessOf  map[string]string // cookie -> lock-server session (canonical)
	nconn   int
	grants  []struct {
		name, key string
		lease     bool
	}
	nreq int
}

var mNames = []string{"a", "ab", "b", "é"}
var mLongNames = []string{strings.Repeat("n", 960), strings.Repeat("L", 5000)}

func (g *mGen) valid() []string {
	out := []string{}
	for _, c := range g.cookies {
		if d, ok := g.dl[c]; ok && d > g.now {
			out = append(out, c)
		}
	}
	return out
}

func (g *mGen) pickCookie() string {
	r := g.r
	v := g.valid()
	switch {
	case len(v) > 0 && r.Chance(78):
		return common.Pick(r, v)
	case len(g.cookies) > 0 && r.Chance(50):
		return common.Pick(r, g.cookies) // possibly ended
	case r.Chance(50):
		return common.Pick(r, []string{"zz", "R99", "00000000000000000000000000000000", "R-1"})
	}
	return "-"
}

func (g *mGen) request(o *mOp) {
	r := g.r
	choice := weighted(r, []string{"trylock", "unlock", "renew", "bad"}, []int{45, 27, 22, 6})
	switch choice {
	case "trylock":
		o.Rpc = "trylock"
		o.Name = weighted(r, append(append([]string{}, mNames...), ""), []int{35, 20, 25, 15, 5})
		if r.Chance(6) {
			o.Name = common.Pick(r, mLongNames)
		}
		o.Size = weighted(r, []*int32{nil, p32(0), p32(1), p32(2), p32(-1)}, []int{40, 5, 20, 30, 5})
		o.Lt = weighted(r, []*int32{nil, p32(0), p32(3), p32(5), p32(-1)}, []int{40, 8, 22, 25, 5})
	case "unlock", "renew":
		o.Rpc = choice
		if choice == "renew" {
			o.RenewT = weighted(r, []int32{5, 2, 0, -1}, []int{55, 25, 12, 8})
		}
		if n := len(g.grants); n > 0 && r.Chance(85) {
			i := n - 1 - r.Intn(min(n, 4))
			o.Name, o.Key = g.grants[i].name, g.grants[i].key
		} else {
			o.Name, o.Key = common.Pick(r, mNames), common.Pick(r, []string{"nope", "K999", ""})
		}
		if r.Chance(8) {
			o.Name = common.Pick(r, mNames)
		}
	case "bad":
		o.Rpc = "bad"
	}
}

func (g *mGen) next() mOp {
	r := g.r
	c20 := g.prop == "C20"
	w := []int{10, 4, 40, 8, 22, 4, 12} // create delete req gconnect greq gend adv
	if c20 {
		w = []int{12, 9, 42, 2, 3, 1, 31}
	}
	if len(g.cookies) == 0 {
		w[0] += 40
	}
	kind := weighted(r, []string{"create", "delete", "req", "gconnect", "greq", "gend", "adv"}, w)
	o := mOp{Kind: kind}
	up := []string{}
	for _, c := range g.conns {
		if g.connUp[c] {
			up = append(up, c)
		}
	}
	switch kind {
	case "create":
		if len(g.valid()) >= 3 {
			return g.next()
		}
	case "delete":
		o.Ck = g.pickCookie()
	case "req":
		o.Ck = g.pickCookie()
		g.request(&o)
	case "greq":
		if len(up) == 0 {
			return g.next()
		}
		o.Ck = common.Pick(r, up)
		g.request(&o)
		if o.Rpc == "bad" {
			o.Rpc, o.Name = "trylock", "a"
		}
	case "gend":
		if len(up) == 0 {
			return g.next()
		}
		o.Ck = common.Pick(r, up)
	case "gconnect":
		if len(up) >= 2 {
			return g.next()
		}
	case "adv":
		v := g.valid()
		switch {
		case len(v) > 0 && r.Chance(60): // relative to the idle deadline of one session
			d := g.dl[common.Pick(r, v)] - g.now
			o.D = int64(d) + int64(common.Pick(r, []int{-1, 0, 1, -1, 0, 1, -int(time.Second), int(time.Second)}))
		case r.Chance(30):
			o.D = int64(common.Pick(r, []time.Duration{g.T / 2, 1, 2 * g.T, g.T - 1, g.T, g.T + 1}))
		default:
			o.D = int64(time.Duration(1+r.Intn(6)) * time.Second)
			if r.Chance(30) { // lease boundaries (3 s and 5 s leases)
				o.D += int64(common.Pick(r, []int{-1, 0, 1}))
			}
		}
		if o.D <= 0 {
			o.D = 1
		}
	}
	return o
}

// note updates the generator's beliefs from what the implementation answered.
func (g *mGen) note(o mOp, http int, ok bool, key string, cookie string) {
	switch o.Kind {
	case "create":
		if cookie != "" {
			g.cookies = append(g.cookies, cookie)
			g.dl[cookie] = g.now + g.T
		}
	case "gconnect":
		g.conns = append(g.conns, cookie)
		g.connUp[cookie] = true
	case "gend":
		g.connUp[o.Ck] = false
	case "delete":
		if http == 200 {
			delete(g.dl, o.Ck)
		}
	case "req", "greq":
		if o.Kind == "req" && http != 401 {
			g.dl[o.Ck] = g.now + g.T
		}
		if o.Rpc == "trylock" && ok {
			g.grants = append(g.grants, struct {
				name, key string
				lease     bool
			}{o.Name, key, o.Lt != nil && *o.Lt > 0})
		}
	case "adv":
		g.now += time.Duration(o.D)
	}
}

// ---------------------------------------------------------------- execution on the real gateway

type mWorld struct {
	sd      *side
	start   time.Time
	canon   map[string]string // real uuid-ish string -> canonical name
	real    map[string]string // canonical -> real
	conns   map[string]context.Context
	sidOfCk map[string]string // canonical cookie -> real lock-server session id
	nrest   int
	nreq    int
	endSeen int
}

func (w *mWorld) canonS(s string) string {
	for u, c := range w.canon {
		if strings.Contains(s, u) {
			s = strings.ReplaceAll(s, u, c)
		}
	}
	return s
}

func (w *mWorld) realOf(c string) string {
	if r, ok := w.real[c]; ok {
		return r
	}
	return c
}

func (w *mWorld) bind(realS, canon string) {
	w.canon[realS] = canon
	w.real[canon] = realS
}

func jsonBody(o mOp, key string) (path, body string) {
	f := map[string]any{}
	if o.Name != "" {
		f["name"] = o.Name
	}
	switch o.Rpc {
	case "trylock":
		path = "/v1/lock"
		if o.Size != nil {
			f["size"] = *o.Size
		}
		if o.Lt != nil {
			f["lock_timeout_seconds"] = *o.Lt
		}
	case "unlock":
		path = "/v1/unlock"
		if key != "" {
			f["key"] = key
		}
	case "renew":
		path = "/v1/renew"
		if key != "" {
			f["key"] = key
		}
		f["lock_timeout_seconds"] = o.RenewT
	default:
		return "/v1/lock", `{"name":`
	}
	b, _ := json.Marshal(f)
	return path, string(b)
}

func (w *mWorld) snapshot() string {
	ls := w.sd.ls
	parts := []string{}
	for sid, hs := range ls.VerifSessionLocks() {
		hh := []string{}
		for _, l := range hs {
			hh = append(hh, fmt.Sprintf("%s/%s/%d", impl.Tok(l.Name()), impl.Tok(w.canonS(l.Key())), l.Size()))
		}
		sort.Strings(hh)
		parts = append(parts, impl.Tok(w.canonS(sid))+":["+strings.Join(hh, ",")+"]")
	}
	sort.Strings(parts)
	tbl := []string{}
	for _, l := range ls.VerifManager().VerifTable() {
		ks := []string{}
		for _, k := range l.Keys {
			ks = append(ks, impl.Tok(w.canonS(k)))
		}
		sort.Strings(ks)
		tbl = append(tbl, fmt.Sprintf("%s:%d:[%s]:la=%d", impl.Tok(l.Name), l.Size, strings.Join(ks, ","), int64(l.LastAccessed.Sub(w.start))))
	}
	sort.Strings(tbl)
	tm := []string{}
	for _, k := range ls.VerifTimerKeys() {
		tm = append(tm, impl.Tok(w.canonS(k)))
	}
	sort.Strings(tm)
	ss, tt := rest.VerifSessions(w.sd.srv)
	rs := []string{}
	for _, s := range ss {
		rs = append(rs, impl.Tok(w.canonS(s)))
	}
	sort.Strings(rs)
	rt := []string{}
	for _, s := range tt {
		rt = append(rt, impl.Tok(w.canonS(s)))
	}
	sort.Strings(rt)
	x := fmt.Sprintf(" | L=%s | T=%s | TM=%s | RS=[%s] | now=%d", strings.Join(parts, ";"), strings.Join(tbl, ";"), strings.Join(tm, ";"), strings.Join(rs, ","), int64(time.Since(w.start)))
	if strings.Join(rs, ",") != strings.Join(rt, ",") {
		x += " | RT=[" + strings.Join(rt, ",") + "]" // session table and idle-timer map differ: shows up as a difference
	}
	return x
}

// exec performs one operation; returns the response part of the line and what the generator needs.
func (w *mWorld) exec(o mOp) (resp string, http int, ok bool, key, cookie string) {
	okS, keyS, errS, ckS, ended := "-", "-", "-", "-", []string{}
	fromLock := func(m *pb.LockResponse) {
		ok = m.GetLocked()
		okS = map[bool]string{true: "1", false: "0"}[ok]
		errS = errCode(m.Error)
		if ok && m.GetKey() != "" {
			key = w.canonS(m.GetKey())
			keyS = impl.Tok(key)
		}
	}
	fromUnlock := func(m *pb.UnlockResponse) {
		ok = m.GetUnlocked()
		okS = map[bool]string{true: "1", false: "0"}[ok]
		errS = errCode(m.Error)
	}
	granted := func(m *pb.LockResponse) { // a TryLock that reached the service consumes one request number
		if m.GetLocked() {
			w.bind(m.GetKey(), "K"+strconv.Itoa(w.nreq))
		}
		w.nreq++
	}
	switch o.Kind {
	case "create":
		h := w.sd.do("POST", "/session", nil, "")
		http = h.Code
		if h.Panic != "" {
			return "panic " + h.Panic, 0, false, "", ""
		}
		if h.Cookie != nil {
			cookie = "R" + strconv.Itoa(w.nrest)
			w.nrest++
			w.bind(h.Cookie.Value, cookie)
			sid := w.sd.svc.lastTagged()
			w.bind(sid, "c"+strconv.Itoa(len(w.sd.svc.tagged)-1))
			w.sidOfCk[cookie] = sid
			ckS = impl.Tok(cookie)
		}
	case "gconnect":
		n := len(w.sd.svc.tagged)
		ctx := w.sd.grpcConn(n)
		sid := w.sd.svc.lastTagged()
		cookie = "c" + strconv.Itoa(n)
		w.bind(sid, cookie)
		w.conns[cookie] = ctx
		ckS = impl.Tok(cookie)
	case "gend":
		w.sd.grpcEnd(w.conns[o.Ck])
		w.endSeen = w.sd.svc.totalEnds()
	case "delete":
		var ck *string
		if o.Ck != "-" {
			c := w.realOf(o.Ck)
			ck = &c
		}
		h := w.sd.do("DELETE", "/session", ck, "")
		http = h.Code
		if h.Panic != "" {
			return "panic " + h.Panic, 0, false, "", ""
		}
		w.endSeen = w.sd.svc.totalEnds()
	case "req":
		var ck *string
		if o.Ck != "-" {
			c := w.realOf(o.Ck)
			ck = &c
		}
		path, body := jsonBody(o, w.realOf(o.Key))
		h := w.sd.do("POST", path, ck, body)
		http = h.Code
		if h.Panic != "" {
			return "panic " + h.Panic, 0, false, "", ""
		}
		if h.Code == 200 {
			if o.Rpc == "unlock" {
				m := &pb.UnlockResponse{}
				if err := protojson.Unmarshal([]byte(h.Body), m); err != nil {
					return "undecodable " + strings.TrimSpace(h.Body), http, false, "", ""
				}
				fromUnlock(m)
			} else {
				m := &pb.LockResponse{}
				if err := protojson.Unmarshal([]byte(h.Body), m); err != nil {
					return "undecodable " + strings.TrimSpace(h.Body), http, false, "", ""
				}
				if o.Rpc == "trylock" {
					granted(m)
				}
				fromLock(m)
			}
		}
	case "greq":
		ctx := w.conns[o.Ck]
		var err error
		func() {
			defer func() {
				if p := recover(); p != nil {
					err = fmt.Errorf("panic: %v", p)
				}
			}()
			switch o.Rpc {
			case "trylock":
				var m *pb.LockResponse
				if m, err = w.sd.svc.TryLock(ctx, &pb.TryLockRequest{Name: o.Name, Size: o.Size, LockTimeoutSeconds: o.Lt}); err == nil {
					granted(m)
					fromLock(m)
				}
			case "unlock":
				var m *pb.UnlockResponse
				if m, err = w.sd.svc.Unlock(ctx, &pb.UnlockRequest{Name: o.Name, Key: w.realOf(o.Key)}); err == nil {
					fromUnlock(m)
				}
			default:
				var m *pb.LockResponse
				if m, err = w.sd.svc.Renew(ctx, &pb.RenewRequest{Name: o.Name, Key: w.realOf(o.Key), LockTimeoutSeconds: o.RenewT}); err == nil {
					fromLock(m)
				}
			}
		}()
		if err != nil {
			return "grpc-error " + impl.ErrName(err), 0, false, "", ""
		}
	case "adv":
		time.Sleep(time.Duration(o.D))
		synctest.Wait()
		w.sd.svc.mu.Lock()
		for _, sid := range w.sd.svc.ends[w.endSeen:] {
			name := w.canonS(sid)
			for ck, s := range w.sidOfCk {
				if s == sid {
					name = ck
				}
			}
			ended = append(ended, impl.Tok(name))
		}
		w.endSeen = len(w.sd.svc.ends)
		w.sd.svc.mu.Unlock()
		sort.Strings(ended)
	}
	return fmt.Sprintf("h=%d ok=%s key=%s err=%s ck=%s ended=[%s]", http, okS, keyS, errS, ckS, strings.Join(ended, ",")), http, ok, key, cookie
}

func runModelHist(t *testing.T, prop string, r *common.Rng, T time.Duration, nops int, fixed []mOp) *mHist {
	h := &mHist{Timeout: T}
	synctest.Test(t, func(t *testing.T) {
		sd, err := newSide(true, T)
		if err != nil {
			h.fatal = "server.New/NewRestServer: " + err.Error()
			return
		}
		defer sd.close()
		w := &mWorld{sd: sd, start: time.Now(), canon: map[string]string{}, real: map[string]string{}, conns: map[string]context.Context{}, sidOfCk: map[string]string{}}
		g := &mGen{r: r, prop: prop, T: T, dl: map[string]time.Duration{}, connUp: map[string]bool{}, sessOf: map[string]string{}}
		for i := 0; i < nops || i < len(fixed); i++ {
			var o mOp
			if fixed != nil {
				if i >= len(fixed) {
					break
				}
				o = fixed[i]
			} else if n := len(h.Ops); n > 0 && h.Ops[n-1].Kind != "adv" && r.Chance(75) {
				o = mOp{Kind: "adv", D: int64(1 + r.Intn(9))} // a few ns between operations: no two timers armed on the same instant
			} else {
				o = g.next()
			}
			resp, http, ok, key, cookie := w.exec(o)
			g.note(o, http, ok, key, cookie)
			h.Ops = append(h.Ops, o)
			h.Impl = append(h.Impl, resp+w.snapshot())
			if strings.HasPrefix(resp, "panic ") {
				break
			}
		}
	})
	return h
}

var tieRe = " tie=1"

func stripTie(s string) string {
	s = strings.Replace(s, " tie=0", "", 1)
	return strings.Replace(s, " tie=1", "", 1)
}

func chanOf(line string) map[string]string {
	m := map[string]string{}
	parts := strings.Split(line, " | ")
	m["r"] = parts[0]
	for _, p := range parts[1:] {
		if i := strings.Index(p, "="); i > 0 {
			m[p[:i]] = p[i+1:]
		}
	}
	return m
}

func TestRestModel(t *testing.T) {
	prop := common.Prop()
	res := common.NewResult("restmodel")
	startWatchdog(res)
	res.Rule = "random histories (create / DELETE / TryLock, Unlock, Renew requests with valid, ended, garbage and missing cookies and undecodable bodies / gRPC connections and requests on the same server / time steps to deadline-1ns, deadline, deadline+1ns of a session's idle timer and of leases) on the real gateway + lock server in virtual time and on the Lean model M4; distinct = distinct (timeout, op sequence); non-trivial = at least one accepted request, one refused request or session end, and one grant"
	defer func() {
		if err := res.Write(); err != nil {
			t.Fatal(err)
		}
	}()
	n := 400
	if common.Thorough() {
		n = 4000
	}
	n = common.EnvInt("VERIF_N", n)
	var hists []*mHist
	if p := os.Getenv("VERIF_REPLAY"); p != "" {
		b, err := os.ReadFile(p)
		if err != nil {
			t.Fatal(err)
		}
		var rp struct {
			Replay struct {
				Timeout int64 `json:"timeout"`
				Ops     []mOp `json:"ops"`
			} `json:"replay"`
		}
		if err := json.Unmarshal(b, &rp); err != nil || len(rp.Replay.Ops) == 0 {
			t.Fatalf("replay file %s: no restmodel replay in it (%v)", p, err)
		}
		hists = append(hists, runModelHist(t, prop, nil, time.Duration(rp.Replay.Timeout), 0, rp.Replay.Ops))
	} else {
		root := common.NewRng(common.Seed() ^ 0x4e57)
		for i := 0; i < n; i++ {
			r := root.Fork(uint64(i))
			T := common.Pick(r, []time.Duration{2 * time.Second, 10 * time.Second})
			if prop == "C15" {
				T = common.Pick(r, []time.Duration{10 * time.Minute, 30 * time.Second, 10 * time.Second})
			}
			hists = append(hists, runModelHist(t, prop, r, T, 20+r.Intn(40), nil))
		}
	}
	lines := []string{}
	for _, h := range hists {
		lines = append(lines, h.cfgLine())
		for _, o := range h.Ops {
			lines = append(lines, o.line())
		}
		lines = append(lines, "end")
	}
	out, err := common.LeanBatch([]string{"rest"}, lines)
	if err != nil {
		t.Fatal(err)
	}
	k := 0
	for _, h := range hists {
		k++ // cfg-ok
		h.Model = out[k : k+len(h.Ops)]
		k += len(h.Ops) + 1
	}
	for _, h := range hists {
		if h.fatal != "" {
			res.Find(common.Finding{Kind: "violation", Property: prop, Signature: "restmodel:start-failed", What: h.fatal, Replay: map[string]any{"timeout": int64(h.Timeout)}})
			continue
		}
		canon := []string{h.Timeout.String()}
		accepted, refused, grant := false, false, false
		for i, o := range h.Ops {
			canon = append(canon, o.line())
			res.Count("op:" + o.Kind)
			if strings.Contains(h.Model[i], tieRe) {
				res.Count("history-truncated-at-tie")
				break
			}
			a, b := chanOf(h.Impl[i]), chanOf(stripTie(h.Model[i]))
			res.Count("answer:" + strings.SplitN(a["r"], " ", 2)[0])
			if strings.HasPrefix(a["r"], "h=200") {
				accepted = true
			}
			if strings.HasPrefix(a["r"], "h=401") || strings.Contains(a["r"], "ended=[=") || (o.Kind == "delete" && strings.HasPrefix(a["r"], "h=200")) {
				refused = true
			}
			if strings.Contains(a["r"], "ok=1 key==K") && o.Rpc == "trylock" {
				grant = true
			}
			if strings.Contains(a["r"], "ended=[=") {
				res.Count("idle-expiry")
			}
			bad := ""
			for _, c := range []string{"r", "L", "T", "TM", "RS", "RT", "now"} {
				if a[c] != b[c] {
					bad = c
					break
				}
			}
			if bad != "" {
				opl := []string{}
				for _, o := range h.Ops[:i+1] {
					opl = append(opl, o.line())
				}
				res.Find(common.Finding{Kind: "disagreement", Property: prop, Signature: "restmodel:channel:" + bad,
					What:   fmt.Sprintf("model M4 and the gateway differ in channel %s after %q: impl %q, model %q", bad, o.line(), a[bad], b[bad]),
					Replay: map[string]any{"timeout": int64(h.Timeout), "cfg_line": h.cfgLine(), "ops": h.Ops[:i+1], "op_lines": opl, "impl": h.Impl[i], "model": h.Model[i], "at": i}})
				break
			}
		}
		res.Eval(strings.Join(canon, ";"), accepted && refused && grant)
		res.Sample(map[string]any{"timeout": h.Timeout.String(), "ops": canon[1:min(len(canon), 12)]})
	}
}
