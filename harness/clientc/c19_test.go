package clientc

import (
	"sync"
	"context"
	"errors"
	"fmt"
	"sort"
	"strings"
	"testing"
	"testing/synctest"
	"time"

	"github.com/imoore76/ldlm/client"
	pb "github.com/imoore76/ldlm/protos"
	"github.com/imoore76/ldlm/verifrt"
	"google.golang.org/grpc"
	"google.golang.org/grpc/codes"
	"google.golang.org/grpc/status"

	"verif/harness/common"
	"verif/harness/conc"
	"verif/harness/impl"
)

// TestClient: C19 = (a) sequential histories, (b) Unlock / Close against the renewer under
// controlled interleaving, (c) the retry rule.
func TestClient(t *testing.T) {
	if p := common.Prop(); p != "C19" && p != "C14" && p != "" {
		t.Fatalf("VERIF_PROP must be C19 or C14 (got %q)", p)
	}
	res := common.NewResult("client")
	res.Property = "C19"
	defer func() {
		if err := res.Write(); err != nil {
			t.Fatalf("writing the result file: %v", err)
		}
	}()
	if common.Prop() == "C14" {
		res.Property = "C14"
		runErrorAfterRetryPart(t, res)
		return
	}
	res.Rule = "(a) histories of one auto-renewing client over a recording in-process transport to the real service + lock server: 1-4 Lock/TryLock with lock timeouts from {5,10,11,12,30,31,40,45,60} s, sizes 1-3, same and different names, advances of 1-200 s or to a renew instant +-1 ns, Unlock at random points, Close, then 3 x the longest timeout of silence; monitors after every operation. (b) programs {Unlock, Close} || renewer goroutine (hold with T=40 s, interval 10 s, one 10 s tick) and Unlock(x) || renewers of x and of an untouched second hold y on the instrumented client: every schedule with at most 2-3 preemptions (thorough: 3-4; depth-first, capped) plus PCT-style random schedules, each in a fresh bubble with a fresh server. (c) every gRPC status code (and a non-status error) x MaxRetries 0-3 x 0-5 scripted failures x 4 methods against a stub transport. distinct = distinct history / (program, schedule) / retry case; non-trivial = (a) a hold that was renewed and an unlock, (b) at least one preemption or the tick placed before the thread finished, (c) at least one scripted failure"
	rng := common.NewRng(common.Seed())
	runSequentialPart(t, res, rng.Fork(1))
	runConcPart(t, res, rng.Fork(2))
	runRetryPart(t, res)
	runUnlockFailurePart(t, res)
	runRenewRetryPart(t, res)
}

// (d) the Unlock RPC fails at transport level (before or after the server applied it) until the retry
// budget is spent: Unlock returns the error - and from then on no renew for that hold is sent and
// nothing panics ("once Unlock has returned ...", whatever Unlock returned).
func runUnlockFailurePart(t *testing.T, res *common.Result) {
	client.RetryDelaySeconds = 3
	for M := 0; M <= 2; M++ {
		for _, applied := range []bool{false, true} {
			M, applied := M, applied
			synctest.Test(t, func(t *testing.T) {
				verifrt.Reset(false)
				w, err := newWorld(M)
				if err != nil {
					t.Fatal(err)
				}
				defer w.close()
				lk, lerr := w.c.Lock("x", &client.LockOptions{LockTimeoutSeconds: 40})
				if lerr != nil || lk == nil || !lk.Locked {
					t.Fatalf("setup: Lock(x) -> %v %v", lk, lerr)
				}
				time.Sleep(15 * time.Second) // one renew has been sent
				synctest.Wait()
				w.tr.mu.Lock()
				w.tr.failUnlock, w.tr.failUnlockApplied = M+1, applied
				w.tr.mu.Unlock()
				var ok bool
				var uerr error
				pan := guard(func() { ok, uerr = w.c.Unlock("x", lk.Key) })
				at, n0 := w.now(), w.tr.len()
				time.Sleep(3 * 40 * time.Second)
				synctest.Wait()
				res.Count("part:d-unlock-failure-case")
				res.Eval(fmt.Sprintf("d|M=%d applied=%v", M, applied), true)
				late := 0
				for _, e := range w.tr.snapshot()[n0:] {
					if e.Method == "Renew" && e.Name == "x" {
						late++
					}
				}
				rp := map[string]any{"part": "d-unlock-failure", "max_retries": M, "unlock_applied_before_the_failure": applied, "unlock_returned": fmt.Sprintf("ok=%v err=%v", ok, uerr), "returned_at": at.String(), "rpcs": w.tr.snapshot()}
				if late > 0 {
					res.Find(common.Finding{Kind: "violation", Property: "C19", Signature: "client:renew-after-unlock:rpc-failed",
						What: fmt.Sprintf("MaxRetries=%d, the Unlock RPC failed with Unavailable %d time(s) (server applied it: %v); Unlock returned (%v, %v) at %v and %d Renew RPC(s) for the hold were sent afterwards; required: none once Unlock has returned", M, M+1, applied, ok, uerr, at, late), Replay: rp})
				}
				ps := verifrt.Panics()
				if pan != "" {
					ps = append(ps, "caller: "+pan)
				}
				if len(ps) > 0 {
					res.Find(common.Finding{Kind: "violation", Property: "C19", Signature: "client:panic:after-failed-unlock",
						What: fmt.Sprintf("MaxRetries=%d, Unlock RPC failed with Unavailable (server applied it: %v): panics %v; required: nothing panics", M, applied, ps), Replay: rp})
				}
			})
		}
	}
}

// runRenewRetryPart: Unlock (and Close) called while the renew goroutine is INSIDE a Renew call that lasts -
// its first attempt was answered Unavailable and it is waiting out the retry delay. "Once Unlock has returned
// no further renew for that hold is sent and nothing panics, for every timing of Unlock against the renew loop".
func runRenewRetryPart(t *testing.T, res *common.Result) {
	client.RetryDelaySeconds = 3
	for M := 1; M <= 3; M++ {
		for _, useClose := range []bool{false, true} {
			for _, into := range []time.Duration{100 * time.Millisecond, 500 * time.Millisecond, 2900 * time.Millisecond, 3500 * time.Millisecond} {
				M, useClose, into := M, useClose, into
				synctest.Test(t, func(t *testing.T) {
					verifrt.Reset(false)
					w, err := newWorld(M)
					if err != nil {
						t.Fatal(err)
					}
					defer w.close()
					lk, lerr := w.c.Lock("x", &client.LockOptions{LockTimeoutSeconds: 40})
					if lerr != nil || lk == nil || !lk.Locked {
						t.Fatalf("setup: Lock(x) -> %v %v", lk, lerr)
					}
					w.tr.mu.Lock()
					w.tr.failRenew = M // every attempt but the last one of the first auto-renew fails
					w.tr.mu.Unlock()
					time.Sleep(10*time.Second + into) // the renew goroutine is `into` into its Renew call
					synctest.Wait()
					var ok bool
					var uerr error
					pan := guard(func() {
						if useClose {
							uerr = w.c.Close()
							ok = uerr == nil
						} else {
							ok, uerr = w.c.Unlock("x", lk.Key)
						}
					})
					at, n0 := w.now(), w.tr.len()
					time.Sleep(3 * 40 * time.Second)
					synctest.Wait()
					res.Count("part:e-renew-in-flight-case")
					res.Eval(fmt.Sprintf("e|M=%d close=%v into=%v", M, useClose, into), true)
					late := 0
					for _, e := range w.tr.snapshot()[n0:] {
						if e.Method == "Renew" && e.Name == "x" {
							late++
						}
					}
					call := map[bool]string{false: "Unlock", true: "Close"}[useClose]
					rp := map[string]any{"part": "e-renew-in-flight", "max_retries": M, "call": call, "called_at": (10*time.Second + into).String(), "returned": fmt.Sprintf("ok=%v err=%v", ok, uerr), "returned_at": at.String(), "rpcs": w.tr.snapshot()}
					if late > 0 {
						res.Find(common.Finding{Kind: "violation", Property: "C19", Signature: "client:renew-after-unlock:renew-in-flight",
							What: fmt.Sprintf("MaxRetries=%d: %s was called %v into an auto-renew whose first %d attempt(s) were answered Unavailable (retry delay 3 s); it returned (%v, %v) at %v and %d Renew RPC(s) for the hold were sent afterwards; required: none once it has returned", M, call, into, M, ok, uerr, at, late), Replay: rp})
					}
					ps := verifrt.Panics()
					if pan != "" {
						ps = append(ps, "caller: "+pan)
					}
					if len(ps) > 0 {
						res.Find(common.Finding{Kind: "violation", Property: "C19", Signature: "client:panic:renew-in-flight",
							What: fmt.Sprintf("MaxRetries=%d: %s called %v into an auto-renew that is waiting out a retry delay: panics %v; required: nothing panics", M, call, into, ps), Replay: rp})
					}
				})
			}
		}
	}
}

// ---------------------------------------------------------------- (b) interleavings

type concWorld struct {
	*world
	err      string
	name     string
	key      string
	done     bool // the thread's call returned
	ok       bool
	uerr     error
	panicked string
	retLog   int           // transport log length when Unlock / Close returned
	retAt    time.Duration // virtual time of that return
	otherKey string        // key of the second, untouched hold "y" (program 3)
	evMu     sync.Mutex
	evs      []string // event log for the validation of M5c (driver linclient)
}

func (cw *concWorld) ev(e string) {
	cw.evMu.Lock()
	cw.evs = append(cw.evs, e)
	cw.evMu.Unlock()
}

func newConcWorld(second bool) *concWorld {
	w, err := newWorld(0)
	if err != nil {
		panic(err)
	}
	cw := &concWorld{world: w, name: "x"}
	lk, lerr := w.c.Lock("x", &client.LockOptions{LockTimeoutSeconds: 40})
	if lerr != nil || lk == nil || !lk.Locked {
		cw.err = fmt.Sprintf("setup: Lock(x) -> %v %v", lk, lerr)
		return cw
	}
	cw.key = lk.Key
	cw.evs = []string{"hist"}
	w.tr.mu.Lock()
	w.tr.onEv = func(e, name, key string) {
		if e == "connclose" || name == cw.name && (key == cw.key || key == "") {
			cw.ev(e)
		}
	}
	w.tr.mu.Unlock()
	if second { // an independent hold on another name, never unlocked; taken 1 s later so that the two
		// renewers never fire at the same instant (their thread names would depend on the Go scheduler)
		time.Sleep(time.Second)
		lk2, lerr := w.c.TryLock("y", &client.LockOptions{LockTimeoutSeconds: 40})
		if lerr != nil || lk2 == nil || !lk2.Locked {
			cw.err = fmt.Sprintf("setup: TryLock(y) -> %v %v", lk2, lerr)
			return cw
		}
		cw.otherKey = lk2.Key
	}
	return cw
}

func (cw *concWorld) finish(what string) conc.Outcome {
	if cw.err != "" {
		cw.close()
		return conc.Outcome{Key: "setup-failed: " + cw.err}
	}
	synctest.Wait()
	cw.ev("tick")
	time.Sleep(3 * 40 * time.Second) // a surviving renewer shows itself within one interval
	synctest.Wait()
	log := cw.tr.snapshot()
	before, after := 0, 0
	var firstAfter *rpcRec
	for i, e := range log {
		if e.Method != "Renew" || e.Name != cw.name || e.Key != cw.key {
			continue
		}
		if cw.done && i >= cw.retLog {
			if after++; firstAfter == nil {
				firstAfter = &log[i]
			}
		} else {
			before++
		}
	}
	otherRenews := 0
	for _, e := range log {
		if e.Method == "Renew" && e.Name == "y" && e.Key == cw.otherKey && e.Ok {
			otherRenews++
		}
	}
	cw.evMu.Lock()
	hist := strings.Join(cw.evs, "\n")
	cw.evMu.Unlock()
	d := map[string]any{"m5c_history": hist, "rpcs": log, "returned": cw.done, "returned_at_ns": int64(cw.retAt), "renews_before_return": before, "renews_after_return": after,
		"still_held_at_end": cw.held(cw.name, cw.key)}
	if firstAfter != nil {
		d["first_renew_after_return"] = *firstAfter
	}
	if cw.panicked != "" {
		d["caller_panic"] = cw.panicked
	}
	other := ""
	if cw.otherKey != "" {
		d["other_hold_still_held"], d["other_hold_successful_renews"] = cw.held("y", cw.otherKey), otherRenews
		other = fmt.Sprintf(" y-held=%v y-renews=%s", cw.held("y", cw.otherKey), bucket(otherRenews))
	}
	ret := "no-return"
	if cw.done {
		ret = fmt.Sprintf("ok=%v/err=%s", cw.ok, impl.ErrName(cw.uerr))
	}
	cw.close()
	return conc.Outcome{Key: fmt.Sprintf("%s:%s renews-before=%d renews-after=%s%s", what, ret, before, bucket(after), other), Detail: d}
}

func concPrograms() []conc.Program {
	return []conc.Program{
		{
			Name:  "Unlock||renewer(T=40s)",
			Setup: func() any { return newConcWorld(false) },
			Threads: []conc.Thread{{Name: "U", Run: func(c any) {
				cw := c.(*concWorld)
				cw.ev("inv u")
				cw.panicked = guard(func() { cw.ok, cw.uerr = cw.c.Unlock(cw.name, cw.key) })
				if cw.panicked == "" {
					cw.ev("ret u")
				}
				cw.done, cw.retLog, cw.retAt = true, cw.tr.len(), cw.now()
			}}},
			Ticks:  []time.Duration{10 * time.Second},
			OnTick: func(c any, i int) { c.(*concWorld).ev("tick") },
			Finish: func(c any) conc.Outcome { return c.(*concWorld).finish("unlock") },
		},
		{
			Name:  "Close||renewer(T=40s)",
			Setup: func() any { return newConcWorld(false) },
			Threads: []conc.Thread{{Name: "C", Run: func(c any) {
				cw := c.(*concWorld)
				cw.ev("inv c")
				cw.panicked = guard(func() { cw.uerr = cw.c.Close(); cw.ok = cw.uerr == nil })
				if cw.panicked == "" {
					cw.ev("ret c")
				}
				cw.done, cw.retLog, cw.retAt = true, cw.tr.len(), cw.now()
			}}},
			Ticks:  []time.Duration{10 * time.Second},
			OnTick: func(c any, i int) { c.(*concWorld).ev("tick") },
			Finish: func(c any) conc.Outcome { return c.(*concWorld).finish("close") },
		},
		{
			Name:  "Unlock(x)||renewer(x)||renewer(y)",
			Setup: func() any { return newConcWorld(true) },
			Threads: []conc.Thread{{Name: "U", Run: func(c any) {
				cw := c.(*concWorld)
				cw.ev("inv u")
				cw.panicked = guard(func() { cw.ok, cw.uerr = cw.c.Unlock(cw.name, cw.key) })
				if cw.panicked == "" {
					cw.ev("ret u")
				}
				cw.done, cw.retLog, cw.retAt = true, cw.tr.len(), cw.now()
			}}},
			// one 11 s tick: x's renewer wakes at 10 s, y's (granted 1 s later) at 11 s, both are parked when
			// the tick returns, registered in that order
			Ticks:  []time.Duration{11 * time.Second},
			OnTick: func(c any, i int) { c.(*concWorld).ev("tick") },
			Finish: func(c any) conc.Outcome { return c.(*concWorld).finish("unlock") },
		},
	}
}

func runConcPart(t *testing.T, res *common.Result, rng *common.Rng) {
	const prop = "C19"
	// the bound is chosen so that the quick tier exhausts programs 1 and 2 (program 3 is capped)
	bounds, capRuns, nRandom := []int{2, 3, 2}, 6000, 300
	if common.Thorough() {
		bounds, capRuns, nRandom = []int{3, 4, 2}, 150000, 5000
	}
	for pi, p := range concPrograms() {
		bound := bounds[pi]
		outcomes := map[string]int{}
		hists := map[string]func() map[string]any{} // distinct event histories of the hold's goroutine and the stopper (M5c validation)
		afterSig := map[bool]string{true: "client:renew-after-unlock", false: "client:renew-after-close"}[pi != 1]
		visit := func(kind string) func(conc.RunResult) bool {
			return func(r conc.RunResult) bool {
				tr := strings.Join(r.Trace, ",")
				nontrivial := conc.Preemptions(r.Trace, r.Alts) > 0
				if i := strings.Index(tr, "~T"); i >= 0 && strings.ContainsAny(tr[i:], "UC") {
					nontrivial = true
				}
				res.Eval("b|"+p.Name+"|"+tr, nontrivial)
				res.Count("part:b-schedule:" + kind + ":" + p.Name)
				if strings.HasPrefix(r.Outcome.Key, "setup-failed") {
					t.Fatalf("%s: %s", p.Name, r.Outcome.Key)
				}
				key := r.Outcome.Key
				find := func(sig, what string) {
					res.Find(common.Finding{Kind: "violation", Property: prop, Signature: sig, What: what,
						Replay: map[string]any{"part": "b-interleavings", "program": p.Name, "exploration": kind, "schedule": r.Trace, "schedule_compressed": conc.Compress(r.Trace),
							"outcome": r.Outcome.Key, "detail": r.Outcome.Detail, "panics": r.Panics, "blocked": r.Blocked, "deadlock": r.Deadlock, "seed": common.Seed()}})
				}
				classes := map[string]string{}
				for _, pn := range r.Panics {
					msg, class, _ := panicClass(pn)
					classes[class] = msg
				}
				if cp, _ := r.Outcome.Detail["caller_panic"].(string); cp != "" {
					_, class, _ := panicClass(cp)
					classes[class] = cp
				}
				cs := common.SortedKeys(classes)
				for _, c := range cs {
					find("client:panic:"+c, fmt.Sprintf("panic under schedule %s: %q; required: nothing panics for any timing of %s against the renew loop", conc.Compress(r.Trace), classes[c], strings.SplitN(p.Name, "||", 2)[0]))
				}
				if len(cs) > 0 {
					key += " panic=[" + strings.Join(cs, ";") + "]"
				}
				if hh, ok := r.Outcome.Detail["m5c_history"].(string); ok && len(r.Blocked) == 0 && r.Deadlock == "" {
					np := 0
					for _, pn := range r.Panics {
						if _, class, _ := panicClass(pn); class == "error renewing lock" {
							np++
						}
					}
					hh += fmt.Sprintf("\nquiet %d\nfin", min(np, 1))
					if _, seen := hists[hh]; !seen && (len(cs) == 0 || len(cs) == 1 && cs[0] == "error renewing lock") {
						tr, name := append([]string{}, r.Trace...), p.Name
						hists[hh] = func() map[string]any {
							return map[string]any{"part": "b-interleavings", "program": name, "exploration": kind, "schedule": tr, "schedule_compressed": conc.Compress(tr), "seed": common.Seed()}
						}
					}
				}
				if n, _ := r.Outcome.Detail["renews_after_return"].(int); n > 0 {
					first, _ := r.Outcome.Detail["first_renew_after_return"].(rpcRec)
					find(afterSig, fmt.Sprintf("%d Renew RPC(s) for the hold were sent after %s had returned (returned at %v, first such renew at %v); required: none", n, strings.SplitN(p.Name, "||", 2)[0], time.Duration(r.Outcome.Detail["returned_at_ns"].(int64)), time.Duration(first.AtNs)))
				}
				if held, ok := r.Outcome.Detail["other_hold_still_held"].(bool); ok && !held {
					find("client:hold-expired-while-alive", fmt.Sprintf("the untouched hold on \"y\" (lock timeout 40 s) was lost while the client was alive (successful renews: %v) under schedule %s", r.Outcome.Detail["other_hold_successful_renews"], conc.Compress(r.Trace)))
				}
				if len(r.Blocked) > 0 || r.Deadlock != "" {
					find("client:deadlock", fmt.Sprintf("threads %v never finished (%q)", r.Blocked, r.Deadlock))
					key += " blocked"
				}
				outcomes[key]++
				return true
			}
		}
		st := time.Now()
		runs, exhausted := conc.ExploreDFS(t, p, bound, capRuns, visit("dfs"))
		el := time.Since(st)
		if exhausted {
			res.Count("part:b-dfs-exhausted:" + p.Name)
		}
		conc.ExploreRandom(t, p, nRandom, rng.Fork(uint64(pi)), visit("random"))
		if err := common.ValidateHistories(res, prop, "linclient", "client:trace:m5c-model@"+p.Name, "the client stop-protocol model M5c", hists); err != nil {
			t.Fatal(err)
		}
		res.CountN("part:b-m5c-histories-validated:"+p.Name, len(hists))
		ks := common.SortedKeys(outcomes)
		sort.SliceStable(ks, func(i, j int) bool { return outcomes[ks[i]] > outcomes[ks[j]] })
		for _, k := range ks {
			res.CountN("part:b-outcome:"+p.Name+": "+k, outcomes[k])
		}
		res.Note("(b) %s: bound %d, %d schedules depth-first (exhausted=%v, %.1fs) + %d random; %d distinct outcomes", p.Name, bound, runs, exhausted, el.Seconds(), nRandom, len(outcomes))
		t.Logf("(b) %s: %d dfs schedules (exhausted=%v) in %.1fs; outcomes: %v", p.Name, runs, exhausted, el.Seconds(), outcomes)
	}
}

// ---------------------------------------------------------------- (c) retry rule

type stub struct {
	script []error // one entry per attempt; nil or past the end = success
	start  time.Time
	calls  []time.Duration
}

func (s *stub) next() error {
	i := len(s.calls)
	s.calls = append(s.calls, time.Since(s.start))
	if i < len(s.script) {
		return s.script[i]
	}
	return nil
}
func (s *stub) Lock(ctx context.Context, in *pb.LockRequest, _ ...grpc.CallOption) (*pb.LockResponse, error) {
	if err := s.next(); err != nil {
		return nil, err
	}
	return &pb.LockResponse{Name: in.Name, Key: "k", Locked: true}, nil
}
func (s *stub) TryLock(ctx context.Context, in *pb.TryLockRequest, _ ...grpc.CallOption) (*pb.LockResponse, error) {
	if err := s.next(); err != nil {
		return nil, err
	}
	return &pb.LockResponse{Name: in.Name, Key: "k", Locked: true}, nil
}
func (s *stub) Unlock(ctx context.Context, in *pb.UnlockRequest, _ ...grpc.CallOption) (*pb.UnlockResponse, error) {
	if err := s.next(); err != nil {
		return nil, err
	}
	return &pb.UnlockResponse{Name: in.Name, Unlocked: true}, nil
}
func (s *stub) Renew(ctx context.Context, in *pb.RenewRequest, _ ...grpc.CallOption) (*pb.LockResponse, error) {
	if err := s.next(); err != nil {
		return nil, err
	}
	return &pb.LockResponse{Name: in.Name, Key: in.Key, Locked: true}, nil
}

func runRetryPart(t *testing.T, res *common.Result) {
	const prop = "C19"
	delay := time.Duration(client.RetryDelaySeconds) * time.Second
	type kase struct {
		label string
		err   error
		code  codes.Code
		plain bool
	}
	cases := []kase{}
	for c := codes.OK; c <= codes.Unauthenticated; c++ {
		cases = append(cases, kase{label: c.String(), err: status.Error(c, "scripted"), code: c})
	}
	cases = append(cases, kase{label: "non-status-error", err: errors.New("scripted plain error"), plain: true})
	maxK := 5
	if common.Thorough() {
		maxK = 8
	}
	for _, kc := range cases {
		for M := 0; M <= 3; M++ {
			for k := 0; k <= maxK; k++ {
				for _, method := range []string{"Lock", "TryLock", "Unlock", "Renew"} {
					canon := fmt.Sprintf("c|%s|%s|MaxRetries=%d|failures=%d", method, kc.label, M, k)
					var calls []time.Duration
					var gotErr error
					var okResp bool
					var pan string
					synctest.Test(t, func(t *testing.T) {
						verifrt.Reset(false)
						s := &stub{start: time.Now()}
						for i := 0; i < k; i++ {
							s.script = append(s.script, kc.err)
						}
						ctx, cancel := context.WithCancel(context.Background())
						defer cancel()
						c := client.VerifNew(ctx, s, true, M)
						pan = guard(func() {
							switch method {
							case "Lock":
								var l *client.Lock
								l, gotErr = c.Lock("x", &client.LockOptions{LockTimeoutSeconds: 40})
								okResp = l != nil && l.Locked
							case "TryLock":
								var l *client.Lock
								l, gotErr = c.TryLock("x", &client.LockOptions{LockTimeoutSeconds: 40})
								okResp = l != nil && l.Locked
							case "Unlock":
								okResp, gotErr = c.Unlock("x", "k")
							case "Renew":
								var l *client.Lock
								l, gotErr = c.Renew("x", "k", 40)
								okResp = l != nil && l.Locked
							}
						})
						calls = s.calls
					})
					res.Eval(canon, k > 0 && kc.err != nil)
					res.Count("part:c-retry-case")
					res.Count("retry:attempts=" + fmt.Sprint(len(calls)))
					find := func(sig, what string) {
						at := []string{}
						for _, c := range calls {
							at = append(at, c.String())
						}
						res.Find(common.Finding{Kind: "violation", Property: prop, Signature: sig, What: what,
							Replay: map[string]any{"part": "c-retry", "method": method, "scripted_error": kc.label, "max_retries": M, "scripted_failures": k,
								"attempts_at": at, "returned_error": fmt.Sprint(gotErr), "returned_ok": okResp, "panic": pan}})
					}
					if pan != "" {
						_, class, _ := panicClass(pan)
						find("client:panic:"+class, fmt.Sprintf("%s panicked with a scripted %s error: %q", method, kc.label, pan))
						continue
					}
					retryable := !kc.plain && kc.code == codes.Unavailable
					fails := k
					if kc.err == nil { // status.Error(OK) is no error at all
						fails = 0
					}
					want := 1
					if retryable {
						want = min(fails, M) + 1
					}
					switch {
					case !retryable && len(calls) > 1:
						find("client:retry:retried-non-unavailable:"+kc.label, fmt.Sprintf("%s was attempted %d times after a %s error; required: only Unavailable is retried", method, len(calls), kc.label))
					case len(calls) > want:
						find("client:retry:too-many-attempts", fmt.Sprintf("%s made %d attempts with MaxRetries=%d and %d Unavailable failures; required %d", method, len(calls), M, fails, want))
					case len(calls) < want:
						find("client:retry:too-few-attempts", fmt.Sprintf("%s made %d attempts with MaxRetries=%d and %d scripted %s failures; required %d", method, len(calls), M, fails, kc.label, want))
					}
					for i, c := range calls {
						if c != time.Duration(i)*delay {
							find("client:retry:wrong-delay", fmt.Sprintf("attempt %d of %s was made at +%v; required exactly %d x RetryDelaySeconds (%v)", i+1, method, c, i, delay))
							break
						}
					}
					succeed := fails == 0 || (retryable && fails <= M)
					switch {
					case succeed && (gotErr != nil || !okResp):
						find("client:retry:wrong-result", fmt.Sprintf("%s should have succeeded (failures %d, MaxRetries %d, %s) but returned ok=%v err=%v", method, fails, M, kc.label, okResp, gotErr))
					case !succeed && gotErr != kc.err && !errors.Is(gotErr, kc.err):
						find("client:retry:error-changed", fmt.Sprintf("%s returned %v; required the last transport error (%s) unchanged", method, gotErr, kc.label))
					}
				}
			}
		}
	}
}


// ---------------------------------------------------------------- C14: an error condition keeps its code through retries

// stubE answers like stub, but the response that finally gets through carries an application error.
type stubE struct {
	stub
	code pb.ErrorCode
}

func (s *stubE) perr() *pb.Error { return &pb.Error{Code: s.code, Message: "scripted " + s.code.String()} }
func (s *stubE) Lock(ctx context.Context, in *pb.LockRequest, _ ...grpc.CallOption) (*pb.LockResponse, error) {
	if err := s.next(); err != nil {
		return nil, err
	}
	return &pb.LockResponse{Name: in.Name, Error: s.perr()}, nil
}
func (s *stubE) TryLock(ctx context.Context, in *pb.TryLockRequest, _ ...grpc.CallOption) (*pb.LockResponse, error) {
	if err := s.next(); err != nil {
		return nil, err
	}
	return &pb.LockResponse{Name: in.Name, Error: s.perr()}, nil
}
func (s *stubE) Unlock(ctx context.Context, in *pb.UnlockRequest, _ ...grpc.CallOption) (*pb.UnlockResponse, error) {
	if err := s.next(); err != nil {
		return nil, err
	}
	return &pb.UnlockResponse{Name: in.Name, Error: s.perr()}, nil
}
func (s *stubE) Renew(ctx context.Context, in *pb.RenewRequest, _ ...grpc.CallOption) (*pb.LockResponse, error) {
	if err := s.next(); err != nil {
		return nil, err
	}
	return &pb.LockResponse{Name: in.Name, Error: s.perr()}, nil
}

// runErrorAfterRetryPart: every error code x 4 methods x MaxRetries 1-3 x 0..MaxRetries transient
// Unavailable failures before the response gets through: the client must return the same exported
// error value (and no success flag) as when the first attempt gets through.
func runErrorAfterRetryPart(t *testing.T, res *common.Result) {
	const prop = "C14"
	res.Rule = "stub transport: for every ldlm error code x {Lock, TryLock, Unlock, Renew} x MaxRetries 1-3 x k = 0..MaxRetries scripted Unavailable failures, the response that finally gets through carries that error code; the client's (flag, error) must be the one it returns for k = 0 (the error value compared with errors.Is against every exported error of the client package). distinct = (method, code, MaxRetries, k); non-trivial = k > 0"
	exported := []struct {
		name string
		err  error
	}{{"ErrLockDoesNotExist", client.ErrLockDoesNotExist}, {"ErrInvalidLockKey", client.ErrInvalidLockKey}, {"ErrLockWaitTimeout", client.ErrLockWaitTimeout},
		{"ErrLockNotLocked", client.ErrLockNotLocked}, {"ErrLockDoesNotExistOrInvalidKey", client.ErrLockDoesNotExistOrInvalidKey},
		{"ErrInvalidLockSize", client.ErrInvalidLockSize}, {"ErrLockSizeMismatch", client.ErrLockSizeMismatch}}
	class := func(ok bool, err error) string {
		c := fmt.Sprintf("flag=%v err=", ok)
		if err == nil {
			return c + "nil"
		}
		for _, e := range exported {
			if errors.Is(err, e.err) {
				return c + e.name
			}
		}
		return c + "other(" + err.Error() + ")"
	}
	for code := pb.ErrorCode_Unknown; code <= pb.ErrorCode_InvalidLockSize; code++ {
		for _, method := range []string{"Lock", "TryLock", "Unlock", "Renew"} {
			for M := 1; M <= 3; M++ {
				base := ""
				for k := 0; k <= M; k++ {
					var got, pan string
					synctest.Test(t, func(t *testing.T) {
						verifrt.Reset(false)
						s := &stubE{code: code}
						s.start = time.Now()
						for i := 0; i < k; i++ {
							s.script = append(s.script, status.Error(codes.Unavailable, "scripted"))
						}
						ctx, cancel := context.WithCancel(context.Background())
						defer cancel()
						c := client.VerifNew(ctx, s, true, M)
						pan = guard(func() {
							switch method {
							case "Lock":
								l, err := c.Lock("x", &client.LockOptions{})
								got = class(l != nil && l.Locked, err)
							case "TryLock":
								l, err := c.TryLock("x", &client.LockOptions{})
								got = class(l != nil && l.Locked, err)
							case "Unlock":
								ok, err := c.Unlock("x", "k")
								got = class(ok, err)
							case "Renew":
								l, err := c.Renew("x", "k", 40)
								got = class(l != nil && l.Locked, err)
							}
						})
					})
					res.Eval(fmt.Sprintf("c14|%s|%s|MaxRetries=%d|k=%d", method, code, M, k), k > 0)
					res.Count("c14:method=" + method)
					res.Count("c14:code=" + code.String())
					if pan != "" {
						got = "panic " + pan
					}
					if k == 0 {
						base = got
						continue
					}
					if got != base {
						res.Find(common.Finding{Kind: "violation", Property: prop, Signature: "client:code-after-retry:" + method + ":" + code.String(),
							What:   fmt.Sprintf("%s whose response carries error code %s: after %d transient Unavailable failure(s) and a retry that gets through the client returns %s, but %s when the first attempt gets through; the error condition must keep its exported error value", method, code, k, got, base),
							Replay: map[string]any{"method": method, "response_error_code": code.String(), "max_retries": M, "unavailable_failures_before_the_response": k, "returned": got, "returned_without_failures": base}})
					}
				}
			}
		}
	}
}
