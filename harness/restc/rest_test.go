package restc

import (
	"testing"

	"verif/harness/common"
)

// TestRest runs the sequential REST drivers; VERIF_PROP selects C15 or C20:
//
//	cd /verif/harness && VERIF_PROP=C15 VERIF_SEED=1 VERIF_TIER=quick VERIF_OUT=/tmp/o.json \
//	  go1.26.8 test -count=1 -vet=off -overlay overlay/exports.json -run '^TestRest$' ./restc
//
// The concurrent part of C20 is TestRestConc in c20conc_test.go (build tag verifconc, instrumented
// overlay): ./conc/run.sh /dev/shm/ov-c20 -tags verifconc -count=1 -run '^TestRestConc$' ./restc
func TestRest(t *testing.T) {
	res := common.NewResult("rest")
	startWatchdog(res)
	defer func() {
		if err := res.Write(); err != nil {
			t.Fatalf("writing the result file: %v", err)
		}
	}()
	switch common.Prop() {
	case "C15":
		runC15(t, res)
	case "C20":
		runC20(t, res)
	default:
		t.Fatalf("VERIF_PROP must be C15 or C20 (got %q)", common.Prop())
	}
}
