/-!
M0 — the state-file codec of `server/session/store/store.go`, i.e. the five `benc/std` functions it
uses (`MarshalUint/UnmarshalUint`, `…String`, `…Int32`, `…Slice`, `…Map`) plus `benc.VerifyMarshal`,
modelled *as the code behaves*: index based, `int(uint64)` wraps at 2^63, counts go to `make` before
any bound check, the four terminator bytes are skipped (`n + 4`) without a bound check and without
being compared, a panic is a first-class outcome.

Every decoder takes a flag `strict`.  `strict = false` is the real decoder.  `strict = true` is the
same decoder with one extra guard in front of each place where the real one panics or allocates out
of proportion; a tripped guard yields `.err .guard`.  `Proofs/Codec.lean` shows that the strict
decoder never panics and never over-allocates, and that the two agree whenever no guard trips.
Core Lean only (this file is linked into the compiled driver).
-/
namespace Ldlm.Codec

abbrev Bytes := List Nat

structure Hold where
  name : Bytes
  key  : Bytes
  size : Int
deriving Repr, DecidableEq

inductive DErr | overflow | bufTooSmall | verify | guard
deriving Repr, DecidableEq

inductive PanicKind
  | sliceStart      -- `buf[n:]` with n > len(buf) (after an unchecked `n + 4`)
  | negLength       -- `b[n:n+s]` with s = int(us) < 0
  | makeslice       -- `make([]T, s)` with s < 0 or s*sizeof(T) > maxAlloc
deriving Repr, DecidableEq

inductive Res (α : Type) where
  | ok (a : α)
  | err (e : DErr)
  | panic (why : PanicKind)
deriving Repr, DecidableEq

/-- Decoder monad: the peak allocation request (bytes) is threaded through; it is not an outcome. -/
def Out (α : Type) := Nat → Res α × Nat

def Out.ok {α} (a : α) : Out α := fun p => (.ok a, p)
def Out.err {α} (e : DErr) : Out α := fun p => (.err e, p)
def Out.panic {α} (w : PanicKind) : Out α := fun p => (.panic w, p)
/-- record a `make` of `bytes` bytes -/
def Out.request (bytes : Nat) : Out Unit := fun p => (.ok (), max p bytes)

def Out.bind {α β} (x : Out α) (f : α → Out β) : Out β := fun p =>
  match x p with
  | (.ok a, p') => f a p'
  | (.err e, p') => (.err e, p')
  | (.panic w, p') => (.panic w, p')

instance : Monad Out where
  pure := Out.ok
  bind := Out.bind

/-! ### encoding -/

def encUvarint (v : Nat) : Bytes :=
  if h : v < 128 then [v] else (v % 128 + 128) :: encUvarint (v / 128)
termination_by v
decreasing_by omega

def encString (s : Bytes) : Bytes := encUvarint s.length ++ s

def encInt32 (v : Int) : Bytes :=
  let u := (v % 4294967296).toNat
  [u % 256, (u / 256) % 256, (u / 65536) % 256, (u / 16777216) % 256]

def encHold (h : Hold) : Bytes := encString h.name ++ encString h.key ++ encInt32 h.size

def term : Bytes := [1, 1, 1, 1]

def encHolds (hs : List Hold) : Bytes := (hs.map encHold).flatten

def encSlice (hs : List Hold) : Bytes := encUvarint hs.length ++ encHolds hs ++ term

def encEntry (kv : Bytes × List Hold) : Bytes := encString kv.1 ++ encSlice kv.2

def encEntries (m : List (Bytes × List Hold)) : Bytes := (m.map encEntry).flatten

def encMap (m : List (Bytes × List Hold)) : Bytes := encUvarint m.length ++ encEntries m ++ term

/-! ### decoding -/

def two63 : Nat := 9223372036854775808
def maxAlloc : Nat := 281474976710656            -- 2^48, Go's maxAlloc on linux/amd64
def holdBytes : Nat := 40                          -- sizeof(clientlock.Lock): two string headers + int32, padded
def mapEntryBytes : Nat := 48                      -- per-entry estimate for `make(map, hint)`

/-- the loop of `bstd.UnmarshalUint`: byte index `i`, accumulated `x`, multiplier `m = 128^i` -/
def decUvarintAux : (fuel i x m : Nat) → Bytes → Nat → Out (Nat × Nat)
  | 0, _, _, _, _, _ => .err .overflow
  | _+1, _, _, _, [], _ => .err .bufTooSmall
  | f+1, i, x, m, b :: bs, pos =>
    if i = 10 then .err .overflow
    else if b < 128 then
      if i = 9 ∧ b > 1 then .err .overflow else .ok (pos + 1, x + b * m)
    else decUvarintAux f (i+1) (x + (b % 128) * m) (m * 128) bs (pos + 1)

/-- `bstd.UnmarshalUint(n, buf)`: `buf[n:]` panics when `n > len(buf)` -/
def decUvarint (strict : Bool) (n : Nat) (b : Bytes) : Out (Nat × Nat) :=
  if n > b.length then (if strict then .err .guard else .panic .sliceStart)
  else decUvarintAux 11 0 0 1 (b.drop n) n

/-- `bstd.UnmarshalString` -/
def decString (strict : Bool) (n : Nat) (b : Bytes) : Out (Nat × Bytes) := do
  let (n, us) ← decUvarint strict n b
  if us ≥ two63 then (if strict then .err .guard else .panic .negLength)
  else if b.length - n < us then .err .bufTooSmall
  else .ok (n + us, (b.drop n).take us)

/-- `bstd.UnmarshalInt32` (`len(b)-n < 4` with a possibly negative difference) -/
def decInt32 (n : Nat) (b : Bytes) : Out (Nat × Int) :=
  if n > b.length then .err .bufTooSmall
  else if b.length - n < 4 then .err .bufTooSmall
  else
    match b.drop n with
    | b0 :: b1 :: b2 :: b3 :: _ =>
      let u := b0 + b1 * 256 + b2 * 65536 + b3 * 16777216
      .ok (n + 4, if u ≥ 2147483648 then (u : Int) - 4294967296 else u)
    | _ => .err .bufTooSmall

def decHold (strict : Bool) (n : Nat) (b : Bytes) : Out (Nat × Hold) := do
  let (n, name) ← decString strict n b
  let (n, key) ← decString strict n b
  let (n, size) ← decInt32 n b
  .ok (n, ⟨name, key, size⟩)

def decHolds (strict : Bool) : (cnt : Nat) → Nat → Bytes → Out (Nat × List Hold)
  | 0, n, _ => .ok (n, [])
  | c+1, n, b => do
    let (n, h) ← decHold strict n b
    let (n, hs) ← decHolds strict c n b
    .ok (n, h :: hs)

/-- `bstd.UnmarshalSlice`: the count goes to `make` before any bound check; terminator skipped unchecked -/
def decSlice (strict : Bool) (n : Nat) (b : Bytes) : Out (Nat × List Hold) := do
  let (n, us) ← decUvarint strict n b
  if us ≥ two63 ∨ us * holdBytes > maxAlloc then (if strict then .err .guard else .panic .makeslice)
  else if strict ∧ us > b.length - n then .err .guard
  else do
    Out.request (us * holdBytes)
    let (n, hs) ← decHolds strict us n b
    .ok (n + 4, hs)

def decEntries (strict : Bool) : (cnt : Nat) → Nat → Bytes → Out (Nat × List (Bytes × List Hold))
  | 0, n, _ => .ok (n, [])
  | c+1, n, b => do
    let (n, k) ← decString strict n b
    let (n, v) ← decSlice strict n b
    let (n, rest) ← decEntries strict c n b
    .ok (n, (k, v) :: rest)

/-- `bstd.UnmarshalMap` + `benc.VerifyMarshal`; a negative count makes an empty map, zero iterations -/
def decMap (strict : Bool) (b : Bytes) : Out (List (Bytes × List Hold)) := do
  let (n, us) ← decUvarint strict 0 b
  let cnt := if us ≥ two63 then 0 else us
  if strict ∧ cnt > b.length then .err .guard
  else do
    Out.request (cnt * mapEntryBytes)
    let (n, es) ← decEntries strict cnt n b
    if n + 4 ≠ b.length then .err .verify else .ok es

/-- the real decoder (`store.Read` after the file has been slurped) -/
def decode (b : Bytes) : Res (List (Bytes × List Hold)) × Nat := decMap false b 0

/-! ### the file: `Truncate(0)`, `Seek(0)`, `Write(d)` on a byte array with a cursor -/

structure File where
  bytes : Bytes := []
  pos   : Nat := 0
deriving Repr, DecidableEq

def File.truncate0 (f : File) : File := { f with bytes := [] }
def File.seek0 (f : File) : File := { f with pos := 0 }
/-- POSIX write at the cursor: a hole before the cursor reads as zeros -/
def File.write (f : File) (d : Bytes) : File :=
  let padded := f.bytes ++ List.replicate (f.pos - f.bytes.length) 0
  { bytes := padded.take f.pos ++ d ++ padded.drop (f.pos + d.length), pos := f.pos + d.length }

/-- `store.Write` -/
def File.store (f : File) (m : List (Bytes × List Hold)) : File :=
  ((f.truncate0).seek0).write (encMap m)

/-- `store.Read`: empty file ⇒ `nil, nil` (an empty map for the caller) -/
def File.load (f : File) : Res (List (Bytes × List Hold)) × Nat :=
  if f.bytes = [] then (.ok [], 0) else decode f.bytes

end Ldlm.Codec
