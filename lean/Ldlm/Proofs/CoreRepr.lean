import Ldlm.Proofs.CoreMain
/-! Representation independence of M2: for EVERY lawful lock-table representation (flat map, any
number of shards with any hash function, …) the lock server behaves exactly like the server over the
"functional" table `Str → Option LockRec`: same answers, same events, same ties, same state up to the
representation.  Hence any two lawful representations are indistinguishable (C12: shard count). -/
namespace Ldlm.Core
open Ldlm.AMap
variable {M : Type} {o : MapOps M} {c : Cfg}

abbrev FnMap := Str → Option LockRec

/-- the lock table as a function -/
def fnOps : MapOps FnMap where
  empty := fun _ => none
  get := fun f n => f n
  set := fun f n r => fun m => if n = m then some r else f m
  filter := fun p f => fun n => (f n).filter (p n)
  toList := fun _ => []

theorem fnOps_lawful : fnOps.Lawful := ⟨fun _ => rfl, fun _ _ _ _ => rfl, fun _ _ _ => rfl⟩

/-- forget the representation of the lock table -/
def norm (o : MapOps M) (s : St M) : St FnMap :=
  ⟨s.now, o.get s.locks, s.timers, s.sessions, s.file, s.pending, s.gcNext, s.nreq⟩

theorem St.ext' {a b : St FnMap} (h1 : a.now = b.now) (h2 : ∀ n, a.locks n = b.locks n) (h3 : a.timers = b.timers)
    (h4 : a.sessions = b.sessions) (h5 : a.file = b.file) (h6 : a.pending = b.pending) (h7 : a.gcNext = b.gcNext)
    (h8 : a.nreq = b.nreq) : a = b := by
  obtain ⟨a1, a2, a3, a4, a5, a6, a7, a8⟩ := a
  obtain ⟨b1, b2, b3, b4, b5, b6, b7, b8⟩ := b
  simp only at h1 h2 h3 h4 h5 h6 h7 h8
  have h2' : a2 = b2 := funext h2
  subst h1 h2' h3 h4 h5 h6 h7 h8
  rfl

@[simp] theorem norm_now (s : St M) : (norm o s).now = s.now := rfl
@[simp] theorem norm_locks (s : St M) (n : Str) : (norm o s).locks n = o.get s.locks n := rfl
@[simp] theorem norm_timers (s : St M) : (norm o s).timers = s.timers := rfl
@[simp] theorem norm_sessions (s : St M) : (norm o s).sessions = s.sessions := rfl
@[simp] theorem norm_file (s : St M) : (norm o s).file = s.file := rfl
@[simp] theorem norm_pending (s : St M) : (norm o s).pending = s.pending := rfl
@[simp] theorem norm_gcNext (s : St M) : (norm o s).gcNext = s.gcNext := rfl
@[simp] theorem norm_nreq (s : St M) : (norm o s).nreq = s.nreq := rfl

theorem norm_removeBook (s : St M) (n k : Str) : norm o (removeBook s n k) = removeBook (norm o s) n k := rfl
theorem norm_addBook (s : St M) (sid : Sid) (x : Hold) : norm o (addBook s sid x) = addBook (norm o s) sid x := rfl

theorem norm_arm (s : St M) (n k : Str) (sid : Sid) (lt : Option Int) :
    norm o (arm s n k sid lt) = arm (norm o s) n k sid lt := by
  unfold arm
  split
  · split <;> rfl
  · rfl

theorem norm_book (s : St M) (sid : Sid) (n k : Str) (sz : Int) (lt : Option Int) :
    norm o (book s sid n k sz lt) = book (norm o s) sid n k sz lt := by
  unfold book; rw [norm_arm, norm_addBook]

/-- setting a record commutes with forgetting the representation -/
theorem norm_setLocks (ho : o.Lawful) (s : St M) (n : Str) (r : LockRec) :
    norm o { s with locks := o.set s.locks n r } = { norm o s with locks := fnOps.set (norm o s).locks n r } := by
  apply St.ext' <;> try rfl
  intro m
  simp only [norm_locks, ho.get_set]
  rfl

theorem norm_handOver (ho : o.Lawful) (s : St M) (n : Str) (r : LockRec) :
    norm o (handOver o s n r).1 = (handOver fnOps (norm o s) n r).1 ∧ (handOver o s n r).2 = (handOver fnOps (norm o s) n r).2 := by
  unfold handOver
  split
  · exact ⟨norm_setLocks ho s n r, rfl⟩
  · rename_i p q' _
    refine ⟨?_, rfl⟩
    simp only
    rw [norm_book]
    congr 1
    apply St.ext' <;> try rfl
    intro m
    simp only [norm_locks, ho.get_set]
    rfl

/-- `norm o A = B` for explicit states: field by field, the table pointwise -/
local macro "norm_ext" ho:term : tactic =>
  `(tactic| (apply St.ext' <;> (try rfl); intro m; simp only [norm_locks, ($ho).get_set]; rfl))

/-- forget the representation in the state component of a result -/
def normP {α : Type} (o : MapOps M) (x : St M × α) : St FnMap × α := (norm o x.1, x.2)

theorem normP_handOver (ho : o.Lawful) (s : St M) (n : Str) (r : LockRec) :
    normP o (handOver o s n r) = handOver fnOps (norm o s) n r := by
  have := norm_handOver ho s n r
  unfold normP
  rw [this.1, this.2]

theorem normP_mgrUnlock (ho : o.Lawful) (s : St M) (n k : Str) :
    normP o (mgrUnlock o s n k) = mgrUnlock fnOps (norm o s) n k := by
  unfold mgrUnlock
  have hget : fnOps.get (norm o s).locks n = o.get s.locks n := rfl
  rw [hget]
  cases hg : o.get s.locks n with
  | none => rfl
  | some r =>
    simp only [norm_now]
    split
    · have := normP_handOver ho s n { r with lastAccessed := s.now, keys := ({ r with lastAccessed := s.now } : LockRec).keys.erase k }
      unfold normP at this ⊢
      simp only at this ⊢
      rw [← this]
    · unfold normP
      simp only
      rw [norm_setLocks ho]
      rfl

theorem normP_srvUnlock (ho : o.Lawful) (s : St M) (n k : Str) :
    normP o (srvUnlock o s n k) = srvUnlock fnOps (norm o s) n k := by
  unfold srvUnlock
  have hm := normP_mgrUnlock ho { s with timers := del s.timers (tkey n k) } n k
  have hdel : norm o { s with timers := del s.timers (tkey n k) } = { norm o s with timers := del (norm o s).timers (tkey n k) } := rfl
  rw [hdel] at hm
  simp only
  generalize mgrUnlock o { s with timers := del s.timers (tkey n k) } n k = m1 at hm ⊢
  generalize mgrUnlock fnOps { norm o s with timers := del (norm o s).timers (tkey n k) } n k = m2 at hm ⊢
  subst hm
  obtain ⟨s1, ok, err, ev⟩ := m1
  cases ok
  · rfl
  · simp only [normP, if_true, norm_removeBook]

theorem getLockCreate_norm (s : St M) (n : Str) (sz : Int) :
    getLockCreate fnOps (norm o s) n sz = getLockCreate o s n sz := rfl

theorem norm_nreqSucc (s : St M) : norm o { s with nreq := s.nreq + 1 } = { norm o s with nreq := (norm o s).nreq + 1 } := rfl

theorem normP_srvTryLock (ho : o.Lawful) (s : St M) (sid : Option Sid) (n : Str) (sz lt : Option Int) :
    normP o (srvTryLock o c s sid n sz lt) = srvTryLock fnOps c (norm o s) sid n sz lt := by
  unfold srvTryLock
  simp only [norm_nreq]
  cases sid with
  | none => rfl
  | some sid =>
    simp only
    split
    · rfl
    · split
      · rfl
      · have hgl : getLockCreate fnOps { norm o s with nreq := (norm o s).nreq + 1 } n (sz.getD 1)
            = getLockCreate o { s with nreq := s.nreq + 1 } n (sz.getD 1) := rfl
        simp only [norm_nreq] at hgl
        rw [hgl]
        cases hg : getLockCreate o { s with nreq := s.nreq + 1 } n (sz.getD 1) with
        | error e => rfl
        | ok r =>
          simp only
          split
          · unfold normP
            simp only
            rw [norm_book]
            congr 2
            norm_ext ho
          · unfold normP
            simp only
            congr 1
            norm_ext ho

theorem normP_srvLock (ho : o.Lawful) (s : St M) (sid : Option Sid) (n : Str) (sz lt wt : Option Int) :
    normP o (srvLock o c s sid n sz lt wt) = srvLock fnOps c (norm o s) sid n sz lt wt := by
  unfold srvLock
  cases sid with
  | none => rfl
  | some sid =>
    simp only
    split
    · rfl
    · split
      · rfl
      · split
        · rfl
        · cases hg : getLockCreate o { s with nreq := s.nreq + 1 } n (sz.getD 1) with
          | error e =>
            have hg' : getLockCreate fnOps { norm o s with nreq := (norm o s).nreq + 1 } n (sz.getD 1) = Except.error e := hg
            rw [hg']
            rfl
          | ok r =>
            have hg' : getLockCreate fnOps { norm o s with nreq := (norm o s).nreq + 1 } n (sz.getD 1) = Except.ok r := hg
            rw [hg']
            simp only
            split
            · unfold normP
              simp only
              rw [norm_book]
              congr 2
              norm_ext ho
            · unfold normP
              simp only
              congr 1
              norm_ext ho

theorem normP_srvRenew (s : St M) (n k : Str) (t : Int) :
    normP o (srvRenew s n k t) = srvRenew (norm o s) n k t := by
  unfold srvRenew
  split
  · rfl
  · simp only [norm_timers]
    split <;> rfl

theorem normP_abandon (ho : o.Lawful) (s : St M) (p : Pending) (e : Err) :
    normP o (abandon o s p e) = abandon fnOps (norm o s) p e := by
  unfold abandon normP
  simp only
  congr 1
  have hget : fnOps.get (norm o s).locks p.name = o.get s.locks p.name := rfl
  rw [hget]
  cases hg : o.get s.locks p.name with
  | none => rfl
  | some r =>
    simp only
    norm_ext ho

theorem normP_abandonAll (ho : o.Lawful) (ps : List Pending) (e : Err) : ∀ (s : St M) (ev : List Event),
    normP o (ps.foldl (fun (acc : St M × List Event) p =>
      let (s', ev) := abandon o acc.1 p e
      (s', acc.2 ++ ev)) (s, ev)) =
    ps.foldl (fun (acc : St FnMap × List Event) p =>
      let (s', ev) := abandon fnOps acc.1 p e
      (s', acc.2 ++ ev)) (norm o s, ev) := by
  induction ps with
  | nil => intro s ev; rfl
  | cons p ps ih =>
    intro s ev
    simp only [List.foldl_cons]
    have h1 := normP_abandon ho s p e
    rw [ih]
    congr 1
    rw [← h1]
    rfl

theorem normP_abandonAll' (ho : o.Lawful) (s : St M) (ps : List Pending) (e : Err) :
    normP o (abandonAll o s ps e) = abandonAll fnOps (norm o s) ps e := normP_abandonAll ho ps e s []

theorem normP_fireLease (ho : o.Lawful) (s : St M) (tk : Str) (tm : Timer) :
    normP o (fireLease o s tk tm) = fireLease fnOps (norm o s) tk tm := by
  unfold fireLease
  have hm := normP_mgrUnlock ho s tm.name tm.key
  simp only
  generalize mgrUnlock o s tm.name tm.key = m1 at hm ⊢
  generalize mgrUnlock fnOps (norm o s) tm.name tm.key = m2 at hm ⊢
  subst hm
  obtain ⟨s1, ok, err, ev⟩ := m1
  rfl

theorem normP_clearHolds (ho : o.Lawful) (hs : List Hold) : ∀ (s : St M) (ev : List Event),
    normP o (hs.foldl (fun (acc : St M × List Event) h =>
      let (s', ok, _, ev) := mgrUnlock o acc.1 h.name h.key
      let s' := if ok then { s' with timers := del s'.timers (tkey h.name h.key) } else s'
      (s', acc.2 ++ ev)) (s, ev)) =
    hs.foldl (fun (acc : St FnMap × List Event) h =>
      let (s', ok, _, ev) := mgrUnlock fnOps acc.1 h.name h.key
      let s' := if ok then { s' with timers := del s'.timers (tkey h.name h.key) } else s'
      (s', acc.2 ++ ev)) (norm o s, ev) := by
  induction hs with
  | nil => intro s ev; rfl
  | cons x hs ih =>
    intro s ev
    simp only [List.foldl_cons]
    have hm := normP_mgrUnlock ho s x.name x.key
    generalize mgrUnlock o s x.name x.key = m1 at hm ⊢
    generalize mgrUnlock fnOps (norm o s) x.name x.key = m2 at hm ⊢
    subst hm
    obtain ⟨s1, ok, err, ev1⟩ := m1
    cases ok
    · exact ih s1 (ev ++ ev1)
    · exact ih { s1 with timers := del s1.timers (tkey x.name x.key) } (ev ++ ev1)

theorem normP_destroy (ho : o.Lawful) (s : St M) (sid : Sid) :
    normP o (destroy o c s sid) = destroy fnOps c (norm o s) sid := by
  unfold destroy
  simp only [norm_sessions]
  split
  · rfl
  · split
    · rfl
    · unfold clearHolds
      exact normP_clearHolds ho _ _ []

theorem norm_gcPass (ho : o.Lawful) (s : St M) (mi : Nat) : norm o (gcPass o s mi) = gcPass fnOps (norm o s) mi := by
  unfold gcPass
  apply St.ext' <;> try rfl
  intro m
  simp only [norm_locks, ho.get_filter]
  rfl

/-- the event processed at instant `t` of an advance -/
def evAt (o : MapOps M) (c : Cfg) (s : St M) (t : Nat) (tl tw : Option Nat) : St M × List Event :=
  if tl == some t then
    match earliestLease s with
    | some (tk, tm) => fireLease o s tk tm
    | none => (s, [])
  else if tw == some t then
    match earliestWait s with
    | some (p, _) => abandon o s p .waitTimeout
    | none => (s, [])
  else ({ gcPass o s c.gcMinIdle with gcNext := t + c.gcInterval }, [])

theorem normP_evAt (ho : o.Lawful) (s : St M) (t : Nat) (tl tw : Option Nat) :
    normP o (evAt o c s t tl tw) = evAt fnOps c (norm o s) t tl tw := by
  unfold evAt
  have h1 : earliestLease (norm o s) = earliestLease s := rfl
  have h2 : earliestWait (norm o s) = earliestWait s := rfl
  rw [h1, h2]
  split
  · split
    · exact normP_fireLease ho s _ _
    · rfl
  · split
    · split
      · exact normP_abandon ho s _ _
      · rfl
    · unfold normP
      simp only
      congr 1
      have := norm_gcPass ho s c.gcMinIdle
      rw [← this]
      rfl

theorem advanceTo_evAt (target : Nat) (fuel : Nat) (s : St M) :
    advanceTo o c target (fuel + 1) s =
      (match minOpt (minOpt ((earliestLease s).map (·.2.deadline)) ((earliestWait s).map (·.2)))
          (if c.gcInterval = 0 then none else some s.gcNext) with
      | none => ({ s with now := max s.now target }, [], false, false)
      | some t =>
        if t > target then ({ s with now := max s.now target }, [], false, false) else
        let tl := (earliestLease s).map (·.2.deadline)
        let tw := (earliestWait s).map (·.2)
        let tg := if c.gcInterval = 0 then none else some s.gcNext
        let tie := ((tl == some t) && (tw == some t)) || ((tg == some t) && ((tl == some t) || (tw == some t)))
        let e := evAt o c { s with now := max s.now t } t tl tw
        let r := advanceTo o c target fuel e.1
        (r.1, e.2 ++ r.2.1, tie || r.2.2.1, r.2.2.2)) := by
  rfl

theorem advanceTo_evAt_norm (target : Nat) (fuel : Nat) (s : St M) :
    advanceTo fnOps c target (fuel + 1) (norm o s) =
      (match minOpt (minOpt ((earliestLease s).map (·.2.deadline)) ((earliestWait s).map (·.2)))
          (if c.gcInterval = 0 then none else some s.gcNext) with
      | none => (norm o { s with now := max s.now target }, [], false, false)
      | some t =>
        if t > target then (norm o { s with now := max s.now target }, [], false, false) else
        let tl := (earliestLease s).map (·.2.deadline)
        let tw := (earliestWait s).map (·.2)
        let tg := if c.gcInterval = 0 then none else some s.gcNext
        let tie := ((tl == some t) && (tw == some t)) || ((tg == some t) && ((tl == some t) || (tw == some t)))
        let e := evAt fnOps c (norm o { s with now := max s.now t }) t tl tw
        let r := advanceTo fnOps c target fuel e.1
        (r.1, e.2 ++ r.2.1, tie || r.2.2.1, r.2.2.2)) := by
  rfl

theorem normP_advanceTo (ho : o.Lawful) (target : Nat) : ∀ (fuel : Nat) (s : St M),
    normP o (advanceTo o c target fuel s) = advanceTo fnOps c target fuel (norm o s) := by
  intro fuel
  induction fuel with
  | zero => intro s; rfl
  | succ f ih =>
    intro s
    rw [advanceTo_evAt, advanceTo_evAt_norm]
    split
    · rfl
    · rename_i t _
      split
      · rfl
      · have he := normP_evAt (c := c) ho { s with now := max s.now t } t
          ((earliestLease s).map (·.2.deadline)) ((earliestWait s).map (·.2))
        simp only
        rw [← he]
        have := ih (evAt o c { s with now := max s.now t } t ((earliestLease s).map (·.2.deadline)) ((earliestWait s).map (·.2))).1
        simp only [normP] at this ⊢
        rw [← this]

theorem norm_restoreOne (ho : o.Lawful) (s : St M) (sid : Sid) (x : Hold) :
    norm o (restoreOne o c s sid x) = restoreOne fnOps c (norm o s) sid x := by
  unfold restoreOne
  simp only
  cases hg : getLockCreate o s x.name x.size with
  | error e =>
    have hg' : getLockCreate fnOps (norm o s) x.name x.size = Except.error e := hg
    rw [hg']
    rfl
  | ok r =>
    have hg' : getLockCreate fnOps (norm o s) x.name x.size = Except.ok r := hg
    rw [hg']
    simp only
    split
    · norm_ext ho
    · norm_ext ho

theorem norm_restoreAll (ho : o.Lawful) (m : List (Sid × List Hold)) : ∀ (s : St M),
    norm o (restoreAll o c s m) = restoreAll fnOps c (norm o s) m := by
  unfold restoreAll
  induction m with
  | nil => intro s; rfl
  | cons e m ih =>
    intro s
    simp only [List.foldl_cons]
    rw [ih]
    congr 1
    generalize e.2 = hs
    induction hs generalizing s with
    | nil => rfl
    | cons x hs ih2 =>
      simp only [List.foldl_cons]
      rw [ih2, norm_restoreOne ho]

theorem normP_restart (ho : o.Lawful) (s : St M) : normP o (restart o c s) = restart fnOps c (norm o s) := by
  unfold restart
  have ha := normP_abandonAll' ho s s.pending .canceled
  simp only [norm_pending]
  generalize abandonAll o s s.pending Err.canceled = a1 at ha ⊢
  generalize abandonAll fnOps (norm o s) s.pending Err.canceled = a2 at ha ⊢
  subst ha
  obtain ⟨s1, ev⟩ := a1
  unfold normP
  simp only
  rw [norm_restoreAll ho]
  congr 2
  apply St.ext' <;> try rfl
  intro m
  simp only [norm_locks, ho.get_empty]
  rfl

theorem step_advance_eq {M' : Type} (o' : MapOps M') (s' : St M') (dt : Nat) :
    step o' c s' (.advance dt) =
      ((advanceTo o' c (s'.now + dt) (4 * (s'.timers.length + s'.pending.length) + 100000) s').1,
       { events := (advanceTo o' c (s'.now + dt) (4 * (s'.timers.length + s'.pending.length) + 100000) s').2.1,
         tie := (advanceTo o' c (s'.now + dt) (4 * (s'.timers.length + s'.pending.length) + 100000) s').2.2.1 ||
                (advanceTo o' c (s'.now + dt) (4 * (s'.timers.length + s'.pending.length) + 100000) s').2.2.2 }) := by
  simp only [step]

theorem normP_step_advance (ho : o.Lawful) (s : St M) (dt : Nat) :
    normP o (step o c s (.advance dt)) = step fnOps c (norm o s) (.advance dt) := by
  rw [step_advance_eq, step_advance_eq]
  simp only [norm_now, norm_timers, norm_pending]
  generalize 4 * (s.timers.length + s.pending.length) + 100000 = fuel
  have := normP_advanceTo (c := c) ho (s.now + dt) fuel s
  simp only [normP] at this ⊢
  rw [← this]

/-- **one step**: same answer (with events and tie flag), same state up to the representation -/
theorem normP_step (ho : o.Lawful) (s : St M) (op : Op) : normP o (step o c s op) = step fnOps c (norm o s) op := by
  cases op with
  | connect sid =>
    simp only [step, norm_sessions]
    split <;> rfl
  | disconnect sid =>
    simp only [step, norm_pending]
    have ha := normP_abandonAll' ho s (s.pending.filter (fun p => p.sid = sid)) .canceled
    generalize abandonAll o s (s.pending.filter (fun p => p.sid = sid)) Err.canceled = a1 at ha ⊢
    generalize abandonAll fnOps (norm o s) (s.pending.filter (fun p => p.sid = sid)) Err.canceled = a2 at ha ⊢
    subst ha
    obtain ⟨s1, ev1⟩ := a1
    have hd := normP_destroy (c := c) ho s1 sid
    simp only [normP] at hd ⊢
    rw [← hd]
  | tryLock sid n sz lt => exact normP_srvTryLock ho s sid n sz lt
  | lock sid n sz lt wt => exact normP_srvLock ho s sid n sz lt wt
  | unlock sid n k => exact normP_srvUnlock ho s n k
  | renew n k t => exact normP_srvRenew s n k t
  | advance dt => exact normP_step_advance ho s dt
  | gc mi =>
    simp only [step, normP]
    rw [norm_gcPass ho]
  | restart =>
    simp only [step]
    have := normP_restart (c := c) ho s
    simp only [normP] at this ⊢
    rw [← this]
  | ipcUnlock n k ch =>
    simp only [step]
    have hp : ipcPick (norm o s) n ch = ipcPick s n ch := rfl
    rw [hp]
    split
    · rfl
    · exact normP_srvUnlock ho s n _
  | cancel req =>
    simp only [step, norm_pending]
    split
    · rfl
    · exact normP_abandon ho s _ _ |> fun h => by
        simp only [normP] at h ⊢
        rw [← h]

theorem norm_init (ho : o.Lawful) : norm o (init o c : St M) = init fnOps c := by
  apply St.ext' <;> try rfl
  intro m
  simp only [norm_locks, init, ho.get_empty]
  rfl

/-- the answers (with events and tie flags) along a history -/
def resps (o : MapOps M) (c : Cfg) : St M → List Op → List Resp
  | _, [] => []
  | s, op :: ops => (step o c s op).2 :: resps o c (step o c s op).1 ops

theorem resps_repr (ho : o.Lawful) (ops : List Op) : ∀ (s : St M),
    resps o c s ops = resps fnOps c (norm o s) ops ∧
    norm o (ops.foldl (fun s op => (step o c s op).1) s) = ops.foldl (fun s op => (step fnOps c s op).1) (norm o s) := by
  induction ops with
  | nil => intro s; exact ⟨rfl, rfl⟩
  | cons op ops ih =>
    intro s
    have hs := normP_step (c := c) ho s op
    simp only [normP] at hs
    have h1 : norm o (step o c s op).1 = (step fnOps c (norm o s) op).1 := congrArg Prod.fst hs
    have h2 : (step o c s op).2 = (step fnOps c (norm o s) op).2 := congrArg Prod.snd hs
    obtain ⟨i1, i2⟩ := ih (step o c s op).1
    refine ⟨?_, ?_⟩
    · simp only [resps]
      rw [h2, i1, h1]
    · simp only [List.foldl_cons]
      rw [i2, h1]

/-- **representation independence**: any two lawful lock-table representations give the same answers to
every history and the same final state up to the representation -/
theorem repr_independent {M₁ M₂ : Type} {o₁ : MapOps M₁} {o₂ : MapOps M₂} (h1 : o₁.Lawful) (h2 : o₂.Lawful)
    (ops : List Op) :
    resps o₁ c (init o₁ c) ops = resps o₂ c (init o₂ c) ops ∧
    norm o₁ (run o₁ c ops) = norm o₂ (run o₂ c ops) := by
  have a := resps_repr (c := c) h1 ops (init o₁ c)
  have b := resps_repr (c := c) h2 ops (init o₂ c)
  rw [norm_init h1] at a
  rw [norm_init h2] at b
  refine ⟨by rw [a.1, b.1], ?_⟩
  unfold run
  rw [a.2, b.2]

end Ldlm.Core
