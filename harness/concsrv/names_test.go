package concsrv

// C02, the identity of a lock: "each granted key can be unlocked successfully exactly once", "a free lock is
// never reported busy" - for EVERY name. The interleaving templates use one plain name; here the real lock
// server gets names that differ only by white space, letter case or a trailing NUL, sequentially: each is
// a lock of its own, and the key granted for a name unlocks under exactly that name.

import (
	"context"
	"fmt"
	"time"

	"github.com/imoore76/ldlm/server"

	"verif/harness/common"
)

func nameIdentityProbe(res *common.Result, prop string) {
	cfg := &server.LockServerConfig{Shards: 16, LockGcInterval: time.Hour, LockGcMinIdle: time.Hour, DefaultLockTimeout: 10 * time.Minute}
	cfg.IPCSocketFile = ""
	cfg.StateFile = ""
	ls, closer, err := server.New(cfg)
	if err != nil {
		res.Note("name-identity probe: server.New failed: %v", err)
		return
	}
	defer closer()
	_, ctx := ls.CreateSession(context.Background(), nil)
	names := []string{"job", " job", "job ", "job\n", "\tjob", "Job", "job\x00", "jo b", "job/", " "}
	keys := map[string]string{}
	find := func(what string, steps []string) {
		res.Find(common.Finding{Kind: "violation", Property: prop, Signature: "conc:nonlinearizable:name-identity", What: what,
			Replay: map[string]any{"program": "one session, sequentially, on the real lock server (16 shards)", "steps": steps}})
	}
	steps := []string{}
	for _, n := range names {
		lk, err := ls.TryLock(ctx, n, nil, nil)
		steps = append(steps, fmt.Sprintf("TryLock(%q) -> locked=%v err=%v", n, lk != nil && lk.Locked, err))
		res.Count("name-identity-probe:trylock")
		if err != nil || lk == nil || !lk.Locked {
			find(fmt.Sprintf("TryLock(%q) answered locked=false (err=%v) although no hold of that name exists: the holds so far are of OTHER names (%d of them, differing by white space, case or a trailing byte) - a free lock is never reported busy", n, err, len(keys)), steps)
			continue
		}
		keys[n] = lk.Key
	}
	for _, n := range names {
		k, ok := keys[n]
		if !ok {
			continue
		}
		un, err := ls.Unlock(ctx, n, k)
		steps = append(steps, fmt.Sprintf("Unlock(%q, its key) -> unlocked=%v err=%v", n, un, err))
		if !un || err != nil {
			find(fmt.Sprintf("Unlock(%q, key) with the key TryLock(%q) had granted answered unlocked=%v err=%v: each granted key can be unlocked successfully exactly once", n, n, un, err), steps)
		}
		if un2, _ := ls.Unlock(ctx, n, k); un2 {
			find(fmt.Sprintf("a second Unlock(%q, key) succeeded too", n), steps)
		}
	}
	if left := len(ls.Locks()); left != 0 {
		find(fmt.Sprintf("%d holds are still listed after every granted key has been unlocked under the name it was granted for", left), steps)
	}
	res.Eval("name-identity-probe", true)
}
