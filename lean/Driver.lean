import Ldlm.Driver.Codec
import Ldlm.Driver.Seq
import Ldlm.Driver.Rest
import Ldlm.Driver.Client
import Ldlm.Driver.Lin
import Ldlm.Driver.LinThreads
import Ldlm.Driver.LinRest
import Ldlm.Driver.LinClient
import Ldlm.Driver.LinCrash

def main (args : List String) : IO UInt32 := do
  match args with
  | ["codec"] => Ldlm.Driver.codecMain; return 0
  | ["seq"] => Ldlm.Driver.seqMain; return 0
  | ["rest"] => Ldlm.Driver.restMain; return 0
  | ["client"] => Ldlm.Driver.clientMain; return 0
  | ["linlease"] => Ldlm.Driver.linLeaseMain; return 0
  | ["linsess"] => Ldlm.Driver.linSessMain; return 0
  | ["linthreads"] => Ldlm.Driver.ThreadsLin.linThreadsMain; return 0
  | ["linrest"] => Ldlm.Driver.RestLin.linRestMain; return 0
  | ["linclient"] => Ldlm.Driver.ClientLin.linClientMain; return 0
  | ["lincrash"] => Ldlm.Driver.CrashLin.linCrashMain; return 0
  | _ => IO.eprintln "usage: driver (codec|seq|conc) ..."; return 2
