import Ldlm.Generated.Facts
/-!
Pins: the normalised source text of the small decision functions the hand-written models M4/M6/M7
were written against.  `Generated/Facts.lean` is regenerated from /repo on every run; each `pin_*`
theorem below breaks when the function's text changes (comment-only and whitespace-only edits do
not change the normalised text).  A broken pin is a broken proof obligation: the models may no
longer describe the code, and the check then searches the implementation for a failing input.
This file is written by hand (copied from the facts at the time the models were written) and is
NOT regenerated.
-/
namespace Ldlm.Pins
open Ldlm

def expectedGetTLSConfig : String := "{ useTls := false tlsConfig := &tls.Config{} if conf.TlsCert != \"\" { serverCert, err := tls.LoadX509KeyPair(conf.TlsCert, conf.TlsKey) if err != nil { return nil, fmt.Errorf(\"LoadX509KeyPair() error loading cert: %w\", err) } tlsConfig.Certificates = []tls.Certificate{serverCert} useTls = true } if conf.ClientCA != \"\" { caPem, err := os.ReadFile(conf.ClientCA) if err != nil { return nil, fmt.Errorf(\"os.ReadFile() failed to read ca cert: %w\", err) } certPool := x509.NewCertPool() if !certPool.AppendCertsFromPEM(caPem) { return nil, fmt.Errorf(\"AppendCertsFromPEM() failed to append client ca cert\") } tlsConfig.ClientCAs = certPool tlsConfig.ClientAuth = tls.RequireAndVerifyClientCert useTls = true } else if conf.ClientCertVerify { tlsConfig.ClientAuth = tls.RequireAndVerifyClientCert useTls = true } if useTls && conf.TlsCert == \"\" { return nil, fmt.Errorf(\"client TLS certificate verification requires server TLS to be configured\") } if useTls { return tlsConfig, nil } return nil, nil }"

theorem pin_GetTLSConfig : Facts.bodyGetTLSConfig = expectedGetTLSConfig := rfl

def expectedValidatePassword : String := "{ isValid := func() bool { if h.password == \"\" { return true } auth := strings.Split(r.Header.Get(\"Authorization\"), \"Basic \") if len(auth) != 2 { return false } decoded, err := base64.StdEncoding.DecodeString(auth[1]) if err != nil { return false } password := strings.SplitN(string(decoded), \":\", 2) if len(password) != 2 { return false } if password[1] == h.password { return true } return false }() if !isValid { slog.Warn( \"Invalid password from client\", \"client_addr\", r.RemoteAddr, ) w.Header().Set(\"WWW-Authenticate\", `Basic realm=\"Restricted\"`) w.WriteHeader(http.StatusUnauthorized) } return isValid }"

theorem pin_ValidatePassword : Facts.bodyValidatePassword = expectedValidatePassword := rfl

def expectedServeHTTP : String := "{ if ok := h.ValidatePassword(w, r); !ok { return } if r.URL.Path == sessionPath && r.Method == http.MethodPost { h.CreateSession(w, r) return } else if r.URL.Path == sessionPath && r.Method == http.MethodDelete { h.DestroySession(w, r) return } s, ok := h.ValidateSession(w, r) if !ok { return } defer s.mtx.Unlock() h.mux.ServeHTTP(w, r.WithContext(s.ctx)) }"

theorem pin_ServeHTTP : Facts.bodyServeHTTP = expectedServeHTTP := rfl

def expectedAuthInterceptor : String := "{ return grpc.UnaryInterceptor( func(ctx context.Context, r interface{}, _ *grpc.UnaryServerInfo, h grpc.UnaryHandler) (interface{}, error) { md, ok := metadata.FromIncomingContext(ctx) if !ok || md[\"authorization\"] == nil { return nil, status.Errorf(codes.Unauthenticated, \"missing credentials\") } if md[\"authorization\"][0] != password { return nil, status.Errorf(codes.Unauthenticated, \"invalid credentials\") } return h(ctx, r) }, ) }"

theorem pin_AuthInterceptor : Facts.bodyAuthInterceptor = expectedAuthInterceptor := rfl

def expectedIpcUnlock : String := "{ log.Info(\"Handling IPC Unlock request\", \"name\", req.Name, \"key\", req.Key) if req.Key == \"\" { for _, v := range i.lckSrv.Locks() { if v.Name() == req.Name { req.Key = v.Key() } } } if req.Key == \"\" { return lock.ErrLockDoesNotExist } unlocked, err := i.lckSrv.Unlock(context.Background(), req.Name, req.Key) if err != nil { return fmt.Errorf(\"failed to unlock lock: %s\", err) } *resp = UnlockResponse(unlocked) return nil }"

theorem pin_IpcUnlock : Facts.bodyIpcUnlock = expectedIpcUnlock := rfl

def expectedDestroySession : String := "{ sessionId = ctx.Value(sessionCtxKey).(string) if l.isShutdown.Load() { return } ctxLog := log.FromContextOrDefault(ctx) ctxLog.Info(\"Session ended\") locks := l.sessionMgr.DestroySession(sessionId) if l.noClearOnDisconnect || len(locks) == 0 { return } ctxLog.Info(\"Client session cleanup\", \"num_locks\", len(locks), ) for _, lk := range locks { if unlocked, err := l.lockMgr.Unlock(lk.Name(), lk.Key()); err != nil || !unlocked { ctxLog.Error( \"Error unlocking lock during client session cleanup\", \"lock\", lk.Name(), \"key\", lk.Key(), \"error\", err, ) } else { ctxLog.Info( \"Unlocked during client session cleanup\", \"lock\", lk.Name(), ) l.lockTimerMgr.Remove(lockTimerKey(lk.Name(), lk.Key())) } } return }"

theorem pin_DestroySession : Facts.bodyDestroySession = expectedDestroySession := rfl

def expectedTimerReset : String := "{ m.timersMtx.Lock() defer m.timersMtx.Unlock() t, ok := m.timers[key] if ok { if t.Stop() { t.Reset(timeout) return true, nil } else { return false, nil } } return false, ErrTimerDoesNotExist }"

theorem pin_TimerReset : Facts.bodyTimerReset = expectedTimerReset := rfl

def expectedStoreWrite : String := "{ if l.fh == nil { return nil } d := marshalLocks(sessionLocks) l.fh.Truncate(0) l.fh.Seek(0, io.SeekStart) if _, err := l.fh.Write(d); err != nil { panic(err) } l.fh.Sync() return nil }"

theorem pin_StoreWrite : Facts.bodyStoreWrite = expectedStoreWrite := rfl

def expectedValidateSession : String := "{ sessionId, err := r.Cookie(sessionCookieName) if err != nil { w.Header().Add(\"Content-Type\", \"application/json\") w.WriteHeader(http.StatusUnauthorized) fmt.Fprintf(w, `{\"error\": \"session cookie not found. create a new session at %s\"}`, sessionPath) return nil, false } h.sessionsMtx.Lock() defer h.sessionsMtx.Unlock() ok, err := h.timerMgr.Reset(sessionId.Value, h.sessionExpiration) if !ok || err != nil { w.Header().Add(\"Content-Type\", \"application/json\") w.WriteHeader(http.StatusUnauthorized) fmt.Fprintf(w, `{\"error\": \"session cookie invalid or expired. create a new session at %s\"}`, sessionPath) return nil, false } s := h.sessions[sessionId.Value] s.mtx.Lock() http.SetCookie(w, &http.Cookie{ Name: sessionCookieName, Value: sessionId.Value, Expires: time.Now().Add(h.sessionExpiration), Path: \"/\", }) return s, true }"

theorem pin_ValidateSession : Facts.bodyValidateSession = expectedValidateSession := rfl

def expectedRestDestroySession : String := "{ sessionId, err := r.Cookie(sessionCookieName) if err != nil { w.WriteHeader(http.StatusInternalServerError) s, _ := json.Marshal(map[string]string{\"error\": err.Error()}) fmt.Fprint(w, string(s)) return } h.sessionsMtx.Lock() s, ok := h.sessions[sessionId.Value] if !ok { h.sessionsMtx.Unlock() w.WriteHeader(http.StatusConflict) fmt.Fprint(w, `{\"error\": \"session not found\"}`) return } h.timerMgr.Remove(sessionId.Value) delete(h.sessions, sessionId.Value) h.sessionsMtx.Unlock() s.mtx.Lock() defer s.mtx.Unlock() h.grpcSrv.HandleConn(s.ctx, &stats.ConnEnd{}) http.SetCookie(w, &http.Cookie{ Name: sessionCookieName, Value: \"\", Expires: time.Time{}, Path: \"/\", }) w.Header().Add(\"Content-Type\", \"application/json\") w.WriteHeader(http.StatusOK) fmt.Fprint(w, `{\"session_id\": \"\"}`) }"

theorem pin_RestDestroySession : Facts.bodyRestDestroySession = expectedRestDestroySession := rfl

def expectedRestCreateSession : String := "{ sessionId := strings.ReplaceAll(uuid.NewString(), \"-\", \"\") var ip string if idx := strings.LastIndex(r.RemoteAddr, \":\"); idx == -1 { ip = \"0.0.0.0\" } else { ip = r.RemoteAddr[:idx] } ctx := h.grpcSrv.TagConn(r.Context(), &stats.ConnTagInfo{ RemoteAddr: &net.TCPAddr{ IP: net.ParseIP(ip), Port: 0, }, }) cxLogger := log.FromContextOrDefault(ctx) cxLogger = cxLogger.With(\"rest_session_id\", sessionId) ctx = log.ToContext(cxLogger, ctx) h.sessionsMtx.Lock() h.sessions[sessionId] = &session{ ctx: ctx, mtx: sync.Mutex{}, } h.timerMgr.Add( sessionId, h.onTimeoutFunc(sessionId), h.sessionExpiration, ) h.sessionsMtx.Unlock() http.SetCookie(w, &http.Cookie{ Name: sessionCookieName, Value: sessionId, Expires: time.Now().Add(h.sessionExpiration), Path: \"/\", }) w.Header().Add(\"Content-Type\", \"application/json\") w.WriteHeader(http.StatusCreated) fmt.Fprintf(w, `{\"session_id\": \"%s\"}`, sessionId) }"

theorem pin_RestCreateSession : Facts.bodyRestCreateSession = expectedRestCreateSession := rfl

def expectedRestOnTimeout : String := "{ return func() { h.sessionsMtx.Lock() s, ok := h.sessions[sessionId] if !ok { h.sessionsMtx.Unlock() return } delete(h.sessions, sessionId) ctxLog := log.FromContextOrDefault(s.ctx) ctxLog.Info( \"REST session timeout\", \"rest_session_id\", sessionId, \"idle\", h.sessionExpiration, ) defer s.mtx.Unlock() s.mtx.Lock() h.sessionsMtx.Unlock() h.grpcSrv.HandleConn(s.ctx, &stats.ConnEnd{}) } }"

theorem pin_RestOnTimeout : Facts.bodyRestOnTimeout = expectedRestOnTimeout := rfl

def expectedTimerAdd : String := "{ m.timersMtx.Lock() defer m.timersMtx.Unlock() m.timers[key] = time.AfterFunc( timeout, func() { onTimeout() m.Remove(key) }, ) }"

theorem pin_TimerAdd : Facts.bodyTimerAdd = expectedTimerAdd := rfl

def expectedTimerRemove : String := "{ m.timersMtx.Lock() defer m.timersMtx.Unlock() stopped := true if _, ok := m.timers[key]; ok { stopped = m.timers[key].Stop() delete(m.timers, key) } return stopped }"

theorem pin_TimerRemove : Facts.bodyTimerRemove = expectedTimerRemove := rfl

def expectedRenewerStart : String := "{ var interval int32 if r.lockTimeoutSeconds <= 30 { interval = MinRenewSeconds } else { interval = max(r.lockTimeoutSeconds-30, MinRenewSeconds) } go func() { defer close(r.done) for { t := time.NewTimer(time.Duration(interval) * time.Second) select { case <-r.client.ctx.Done(): t.Stop() return case <-r.stop: t.Stop() return case <-t.C: select { case <-r.stop: return default: } if _, err := r.client.Renew(r.name, r.key, r.lockTimeoutSeconds); err != nil { panic(\"error renewing lock \" + r.name + \" \" + err.Error()) } } } }() }"

theorem pin_RenewerStart : Facts.bodyRenewerStart = expectedRenewerStart := rfl

def expectedRenewerStop : String := "{ r.stopOnce.Do(func() { close(r.stop) }) <-r.done }"

theorem pin_RenewerStop : Facts.bodyRenewerStop = expectedRenewerStop := rfl

def expectedClientUnlock : String := "{ c.maybeRemoveRenewer(name) r, err := rpcWithRetry( c.maxRetries, func() (*pb.UnlockResponse, error) { return c.pbc.Unlock(c.ctx, &pb.UnlockRequest{ Name: name, Key: key, }) }, ) if err != nil { return false, err } return r.Unlocked, rpcErrorToError(r.Error) }"

theorem pin_ClientUnlock : Facts.bodyClientUnlock = expectedClientUnlock := rfl

def expectedClientClose : String := "{ c.renewMap.Range(func(k, v interface{}) bool { renewer := v.(*renewer) renewer.Stop() return true }) return c.conn.Close() }"

theorem pin_ClientClose : Facts.bodyClientClose = expectedClientClose := rfl

def expectedClientRenew : String := "{ r, err := rpcWithRetry( c.maxRetries, func() (*pb.LockResponse, error) { return c.pbc.Renew(c.ctx, &pb.RenewRequest{ Name: name, Key: key, LockTimeoutSeconds: lockTimeoutSeconds, }) }, ) if err != nil { return nil, err } return &Lock{Name: name, Key: r.Key, Locked: r.Locked, client: c}, rpcErrorToError(r.Error) }"

theorem pin_ClientRenew : Facts.bodyClientRenew = expectedClientRenew := rfl

def expectedMaybeCreateRenewer : String := "{ if !r.Locked || c.noAutoRenew || lockTimeoutSeconds == 0 { return } rFresher := newRenewer(c, r.Name, r.Key, lockTimeoutSeconds) if _, loaded := c.renewMap.LoadOrStore(r.Name, rFresher); loaded { panic(\"client out of sync - lock already exists in renew map\") } }"

theorem pin_MaybeCreateRenewer : Facts.bodyMaybeCreateRenewer = expectedMaybeCreateRenewer := rfl

def expectedMaybeRemoveRenewer : String := "{ if c.noAutoRenew { return } r, ok := c.renewMap.LoadAndDelete(name) if ok { r.(*renewer).Stop() } }"

theorem pin_MaybeRemoveRenewer : Facts.bodyMaybeRemoveRenewer = expectedMaybeRemoveRenewer := rfl

def expectedRpcWithRetry : String := "{ var retries int = 0 for { r, err := f() if err != nil { if st, ok := status.FromError(err); ok && st.Code() == codes.Unavailable { if retries >= maxRetries { return r, err } retries++ time.Sleep(time.Duration(RetryDelaySeconds) * time.Second) continue } else { return r, err } } else { return r, nil } } }"

theorem pin_RpcWithRetry : Facts.bodyRpcWithRetry = expectedRpcWithRetry := rfl

end Ldlm.Pins
