import Ldlm.Model.Lease
/-!
M4c — the REST gateway's session table under concurrency (C20): requests, DELETEs and idle-timer
callbacks racing on any number of sessions, any number of threads, any schedule.

One model step = one lock acquisition / blocking point of `net/rest/rest.go` (function bodies pinned
to the source text in `Pins/C20.lean`):

  request     R1  `sessionsMtx.Lock()`; `timerMgr.Reset` — refused (401) unless the idle timer is armed;
                  accepted: keep the table lock and go on to
              R2  `s.mtx.Lock()` (WHILE holding the table lock), then release the table lock
              R3  served under the session context; `s.mtx.Unlock()`
  DELETE      D1  table lock: no entry → 409; else `timerMgr.Remove`, `delete(sessions, id)`, unlock
              D3  `s.mtx.Lock()`
              D4  `HandleConn(ConnEnd)`; `s.mtx.Unlock()`
  idle timer  fire: the runtime timer fires (armed → fired), its callback goroutine starts
              T1  table lock: no entry → return; else `delete(sessions, id)` and go on to
              T2  `s.mtx.Lock()` (WHILE holding the table lock), then release the table lock
              T3  `HandleConn(ConnEnd)`; `s.mtx.Unlock()`
              T4  timermap's wrapper removes the timer's own map entry

"Pool" form: per session the number of requests / DELETEs waiting at each point; the holders of the
two kinds of mutex are recorded by kind.  Sessions are indexed by `Nat` (a total function: every
index is a created session with an armed idle timer).  Core Lean only.
-/
namespace Ldlm.RestConc
open Ldlm.Lease (TimerSt)

inductive Kind | req | del | cb
deriving DecidableEq, Repr

inductive CbPc | idle | t1 | t2 | t3 | t4 | fin
deriving DecidableEq, Repr

structure Sess where
  entry    : Bool           -- in the session table
  timer    : TimerSt        -- the idle timer's map entry
  mtx      : Option Kind    -- holder of the per-session mutex
  nR1      : Nat            -- requests waiting for the table lock
  nD1      : Nat            -- DELETEs waiting for the table lock
  nD3      : Nat            -- DELETEs that removed the entry, waiting for the session mutex
  cb       : CbPc           -- the idle-timer callback goroutine
  -- ghost history
  ends     : Nat            -- connection-end deliveries
  served   : Nat
  refused  : Nat            -- 401 answers
  conflict : Nat            -- 409 answers
  lateServe : Bool          -- a request was served after connection-end had been delivered
deriving DecidableEq, Repr

structure St where
  tbl     : Option (Nat × Kind)   -- holder of `sessionsMtx`: (session, kind of thread)
  sess    : Nat → Sess
  crashed : Bool                  -- nil dereference of `sessions[id]` in `ValidateSession`

def upd (s : St) (j : Nat) (x : Sess) : St := { s with sess := fun i => if i = j then x else s.sess i }

inductive Act
  | spawnReq (j : Nat) | spawnDel (j : Nat) | fire (j : Nat)
  | reqLock (j : Nat) | reqMtx (j : Nat) | reqServe (j : Nat)
  | delLock (j : Nat) | delMtx (j : Nat) | delEnd (j : Nat)
  | cbLock (j : Nat) | cbMtx (j : Nat) | cbEnd (j : Nat) | cbClean (j : Nat)
deriving DecidableEq, Repr

/-- a step of an existing thread (as opposed to the arrival of a request or the firing of a timer) -/
def Act.isThread : Act → Bool
  | .spawnReq _ | .spawnDel _ | .fire _ => false
  | _ => true

def step (s : St) : Act → Option St
  | .spawnReq j => some (upd s j { s.sess j with nR1 := (s.sess j).nR1 + 1 })
  | .spawnDel j => some (upd s j { s.sess j with nD1 := (s.sess j).nD1 + 1 })
  | .fire j =>
    let x := s.sess j
    if x.timer = .armed then some (upd s j { x with timer := .fired, cb := .t1 }) else none
  | .reqLock j =>
    let x := s.sess j
    if s.tbl ≠ none ∨ x.nR1 = 0 then none else
    if x.timer = .armed then
      if x.entry then some { upd s j { x with nR1 := x.nR1 - 1 } with tbl := some (j, .req) }
      else some { s with crashed := true }
    else some (upd s j { x with nR1 := x.nR1 - 1, refused := x.refused + 1 })
  | .reqMtx j =>
    let x := s.sess j
    if s.tbl = some (j, .req) ∧ x.mtx = none then some { upd s j { x with mtx := some .req } with tbl := none } else none
  | .reqServe j =>
    let x := s.sess j
    if x.mtx = some .req then
      some (upd s j { x with mtx := none, served := x.served + 1, lateServe := x.lateServe || decide (x.ends ≠ 0) })
    else none
  | .delLock j =>
    let x := s.sess j
    if s.tbl ≠ none ∨ x.nD1 = 0 then none else
    if x.entry then some (upd s j { x with nD1 := x.nD1 - 1, entry := false, timer := .none, nD3 := x.nD3 + 1 })
    else some (upd s j { x with nD1 := x.nD1 - 1, conflict := x.conflict + 1 })
  | .delMtx j =>
    let x := s.sess j
    if x.nD3 = 0 ∨ x.mtx ≠ none then none else some (upd s j { x with nD3 := x.nD3 - 1, mtx := some .del })
  | .delEnd j =>
    let x := s.sess j
    if x.mtx = some .del then some (upd s j { x with mtx := none, ends := x.ends + 1 }) else none
  | .cbLock j =>
    let x := s.sess j
    if s.tbl ≠ none ∨ x.cb ≠ .t1 then none else
    if x.entry then some { upd s j { x with entry := false, cb := .t2 } with tbl := some (j, .cb) }
    else some (upd s j { x with cb := .t4 })
  | .cbMtx j =>
    let x := s.sess j
    if s.tbl = some (j, .cb) ∧ x.cb = .t2 ∧ x.mtx = none then
      some { upd s j { x with mtx := some .cb, cb := .t3 } with tbl := none }
    else none
  | .cbEnd j =>
    let x := s.sess j
    if x.cb = .t3 ∧ x.mtx = some .cb then some (upd s j { x with mtx := none, ends := x.ends + 1, cb := .t4 }) else none
  | .cbClean j =>
    let x := s.sess j
    if x.cb = .t4 then some (upd s j { x with timer := (if x.timer = .fired then .none else x.timer), cb := .fin }) else none

def sess0 : Sess :=
  { entry := true, timer := .armed, mtx := none, nR1 := 0, nD1 := 0, nD3 := 0, cb := .idle,
    ends := 0, served := 0, refused := 0, conflict := 0, lateServe := false }

def init : St := { tbl := none, sess := fun _ => sess0, crashed := false }

def run : St → List Act → Option St
  | s, [] => some s
  | s, a :: as => match step s a with
    | none => none
    | some s' => run s' as

/-- some thread of session `j` has not finished -/
def Sess.busy (x : Sess) : Prop :=
  x.nR1 > 0 ∨ x.nD1 > 0 ∨ x.nD3 > 0 ∨ x.mtx ≠ none ∨ x.cb = .t1 ∨ x.cb = .t2 ∨ x.cb = .t3 ∨ x.cb = .t4

end Ldlm.RestConc
