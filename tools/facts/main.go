// facts: regenerates lean/Ldlm/Generated/Facts.lean (plain data) from the working tree of the
// ldlm repository, so that Lean lemmas `Facts.x = expected` break when a source construct changes.
//
//	go run . <repo-root> <output-lean-file>
//
// A missing file or an unmatched pattern yields the empty value (none / [] / "" / false); only I/O
// errors and Go parse errors of files that exist make the tool fail.
package main

import (
	"bytes"
	"crypto/sha256"
	"encoding/hex"
	"errors"
	"fmt"
	"go/ast"
	"go/parser"
	"go/printer"
	"go/token"
	"io/fs"
	"os"
	"path/filepath"
	"reflect"
	"regexp"
	"strconv"
	"strings"
)

var (
	fset = token.NewFileSet()
	root string
	out  strings.Builder
)

func die(a ...any) { fmt.Fprintln(os.Stderr, append([]any{"facts:"}, a...)...); os.Exit(1) }

// ---------------------------------------------------------------- input helpers

func read(rel string) []byte { // nil when the file does not exist
	b, err := os.ReadFile(filepath.Join(root, rel))
	if err != nil && !errors.Is(err, fs.ErrNotExist) {
		die(err)
	}
	return b
}

func lines(rel string) []string { return strings.Split(string(read(rel)), "\n") }

func parse(rel string) *ast.File {
	src := read(rel)
	if src == nil {
		return &ast.File{Name: ast.NewIdent("missing")}
	}
	f, err := parser.ParseFile(fset, filepath.Join(root, rel), src, parser.SkipObjectResolution)
	if err != nil {
		die(err)
	}
	return f
}

func isNil(n ast.Node) bool { return n == nil || reflect.ValueOf(n).IsNil() }

// txt is the go/printer text of a node (comments dropped), whitespace runs collapsed to one space.
func txt(n ast.Node) string {
	var b bytes.Buffer
	if isNil(n) || printer.Fprint(&b, fset, n) != nil {
		return ""
	}
	return strings.Join(strings.Fields(b.String()), " ")
}

// each calls f on n and every descendant of n that has type T, in source order; nil-safe.
func each[T ast.Node](n ast.Node, f func(T)) {
	if isNil(n) {
		return
	}
	ast.Inspect(n, func(m ast.Node) bool {
		if t, ok := m.(T); ok {
			f(t)
		}
		return true
	})
}

// calls reports every call under n whose function text matches re, with the submatches.
func calls(n ast.Node, re string, f func(c *ast.CallExpr, m []string)) {
	rx := regexp.MustCompile(re)
	each(n, func(c *ast.CallExpr) {
		if m := rx.FindStringSubmatch(txt(c.Fun)); m != nil {
			f(c, m)
		}
	})
}

// guarded reports, for every call under n matching re, the innermost `if` whose then-block holds
// the call; calls with no such `if`, or sitting in an else-block, are not reported.
func guarded(n ast.Node, re string, f func(g *ast.IfStmt)) {
	calls(n, re, func(c *ast.CallExpr, _ []string) {
		in := func(b ast.Node) bool { return !isNil(b) && b.Pos() <= c.Pos() && c.Pos() < b.End() }
		var g *ast.IfStmt
		each(n, func(is *ast.IfStmt) { // outer before inner, so the innermost one decides
			if in(is.Body) {
				g = is
			} else if in(is.Else) {
				g = nil
			}
		})
		if g != nil {
			f(g)
		}
	})
}

var noFn = &ast.FuncDecl{Name: ast.NewIdent(""), Type: &ast.FuncType{Params: &ast.FieldList{}}, Body: &ast.BlockStmt{}}

func fns(f *ast.File) (r []*ast.FuncDecl) {
	for _, d := range f.Decls {
		if fd, ok := d.(*ast.FuncDecl); ok && fd.Body != nil {
			r = append(r, fd)
		}
	}
	return
}

func recv(fd *ast.FuncDecl) (name, typ string) {
	if fd.Recv == nil || len(fd.Recv.List) == 0 {
		return
	}
	if len(fd.Recv.List[0].Names) > 0 {
		name = fd.Recv.List[0].Names[0].Name
	}
	typ, _, _ = strings.Cut(strings.TrimPrefix(txt(fd.Recv.List[0].Type), "*"), "[")
	return
}

// findFn returns the function (rtyp "" = no receiver) or the empty placeholder noFn.
func findFn(f *ast.File, rtyp, name string) *ast.FuncDecl {
	for _, fd := range fns(f) {
		if _, t := recv(fd); fd.Name.Name == name && t == rtyp {
			return fd
		}
	}
	return noFn
}

func params(fd *ast.FuncDecl) (names, types []string) {
	for _, p := range fd.Type.Params.List {
		for _, n := range p.Names {
			names = append(names, n.Name)
		}
		for range max(1, len(p.Names)) {
			types = append(types, txt(p.Type))
		}
	}
	return append(names, ""), types // names[0] always exists
}

// topVals reports every `name = value` of the top-level var/const declarations.
func topVals(f *ast.File, fn func(name string, v ast.Expr)) {
	for _, d := range f.Decls {
		if gd, ok := d.(*ast.GenDecl); ok {
			for _, s := range gd.Specs {
				if vs, ok := s.(*ast.ValueSpec); ok && len(vs.Values) == len(vs.Names) {
					for i, n := range vs.Names {
						fn(n.Name, vs.Values[i])
					}
				}
			}
		}
	}
}

// asg returns the two sides of a plain single assignment `l = r`, else "", "".
func asg(s ast.Stmt) (string, string) {
	if a, ok := s.(*ast.AssignStmt); ok && a.Tok == token.ASSIGN && len(a.Lhs) == 1 && len(a.Rhs) == 1 {
		return txt(a.Lhs[0]), txt(a.Rhs[0])
	}
	return "", ""
}

var intRe = regexp.MustCompile(`^(?:\w+\()?(-?\w+)\)?$`)

// intOf reads the expression text `N`, `-N` or `T(N)` and returns N as a Lean Int numeral.
func intOf(s string) (string, bool) {
	m := intRe.FindStringSubmatch(s)
	if m == nil {
		return "", false
	}
	v, err := strconv.ParseInt(m[1], 0, 64)
	if v < 0 {
		return fmt.Sprintf("(%d)", v), err == nil
	}
	return fmt.Sprint(v), err == nil
}

func isCmp(op token.Token) bool { return strings.Contains(" == != < <= > >= ", " "+op.String()+" ") }

// litCmps reports the comparisons `operand OP literal` (basic literal, possibly signed) inside e.
func litCmps(e ast.Expr, f func(l, op, lit string)) {
	each(e, func(b *ast.BinaryExpr) {
		y := b.Y
		if u, ok := y.(*ast.UnaryExpr); ok && (u.Op == token.SUB || u.Op == token.ADD) {
			y = u.X
		}
		if _, ok := y.(*ast.BasicLit); ok && isCmp(b.Op) {
			f(txt(b.X), b.Op.String(), txt(b.Y))
		}
	})
}

// guardErr is the error an argument guard produces: the last result of a lone `return …` body, else
// the value assigned to `err` by a statement of the body; "" if there is none or it is nil.
func guardErr(is *ast.IfStmt) (e string) {
	for _, s := range is.Body.List {
		if r, ok := s.(*ast.ReturnStmt); ok && len(is.Body.List) == 1 && len(r.Results) > 0 {
			e = txt(r.Results[len(r.Results)-1])
		} else if l, r := asg(s); l == "err" && e == "" {
			e = r
		}
	}
	if e == "nil" {
		return ""
	}
	return e
}

// ---------------------------------------------------------------- Lean output helpers

var esc = strings.NewReplacer(`\`, `\\`, `"`, `\"`)

func q(s string) string { return `"` + esc.Replace(s) + `"` }

func tup(ss ...string) string {
	for i := range ss {
		ss[i] = q(ss[i])
	}
	return "(" + strings.Join(ss, ", ") + ")"
}

// def emits one definition. The extractor f reports Lean terms through add: a List keeps all of
// them, any other type keeps the first; with none reported (or if f panics) the empty value of the
// type is emitted.
func def(name, typ string, f func(add func(string))) {
	var it []string
	func() {
		defer func() {
			if r := recover(); r != nil {
				fmt.Fprintf(os.Stderr, "facts: %s: %v (emitting the empty value)\n", name, r)
				it = nil
			}
		}()
		f(func(s string) { it = append(it, s) })
	}()
	kind, _, _ := strings.Cut(typ, " ")
	v := map[string]string{"List": "[]", "Option": "none", "Bool": "false", "String": `""`}[kind]
	switch {
	case kind == "List" && len(it) > 0:
		v = "[\n  " + strings.Join(it, ",\n  ") + "\n]"
	case kind == "Option" && len(it) > 0:
		v = "some " + it[0]
	case len(it) > 0:
		v = it[0]
	}
	fmt.Fprintf(&out, "def %s : %s := %s\n\n", name, typ, v)
}

const (
	s2 = "(String × String)"
	s3 = "(String × String × String)"
	s4 = "(String × String × String × String)"
	s5 = "(String × String × String × String × String)"
)

// ---------------------------------------------------------------- the facts

func main() {
	if len(os.Args) != 3 {
		die("usage: facts <repo-root> <output-lean-file>")
	}
	root = os.Args[1]
	out.WriteString("/-\n  GENERATED FILE, DO NOT EDIT.\n" +
		"  Written by /verif/tools/facts (`go run . <repo-root> <this file>`, go/ast extractor) from the\n" +
		"  current working tree of the ldlm repository; ./check regenerates it on every run.\n" +
		"  Plain data only. Lemmas of the form `Facts.x = expected` elsewhere break when the source changes.\n-/\n\n" +
		"namespace Ldlm.Facts\n\n")
	type adder = func(string)

	grpcF, cliF := parse("net/grpc/grpc.go"), parse("client/client.go")
	srvF, mgrF := parse("server/server.go"), parse("lock/manager.go")
	restF, mainF := parse("net/rest/rest.go"), parse("cmd/server/main.go")
	const ec = "pb.ErrorCode_"

	// 1. server error -> wire code
	l2p := findFn(grpcF, "", "lockErrToProtoBuffErr")
	l2pNames, _ := params(l2p)
	def("grpcErrTable", "List "+s2, func(add adder) {
		each(l2p.Body, func(sw *ast.SwitchStmt) {
			if txt(sw.Tag) != l2pNames[0] {
				return
			}
			each(sw.Body, func(cc *ast.CaseClause) {
				for _, s := range cc.Body {
					l, r := asg(s)
					z, ok := strings.CutPrefix(r, ec)
					if l != "errCode" || !ok {
						continue
					}
					if cc.List == nil {
						add(tup("default", z))
					}
					for _, e := range cc.List {
						add(tup(txt(e), z))
					}
				}
			})
		})
	})
	def("grpcErrDefault", "Option String", func(add adder) {
		each(l2p.Body, func(v *ast.ValueSpec) {
			if len(v.Names) == 1 && v.Names[0].Name == "errCode" && len(v.Values) == 1 {
				if z, ok := strings.CutPrefix(txt(v.Values[0]), ec); ok {
					add(q(z))
				}
			}
		})
	})
	def("grpcNilIsNil", "Bool", func(add adder) {
		if len(l2p.Body.List) > 0 {
			is, ok := l2p.Body.List[0].(*ast.IfStmt)
			add(strconv.FormatBool(ok && is.Init == nil && is.Else == nil &&
				txt(is.Cond) == l2pNames[0]+" == nil" && txt(is.Body) == "{ return nil }"))
		}
	})

	// 2. wire code -> client error
	def("clientErrTable", "List "+s2, func(add adder) {
		each(findFn(cliF, "", "rpcErrorToError").Body, func(cc *ast.CaseClause) {
			if len(cc.Body) != 1 {
				return
			}
			rs, ok := cc.Body[0].(*ast.ReturnStmt)
			if !ok || len(rs.Results) != 1 {
				return
			}
			v := txt(rs.Results[0])
			if c, ok := rs.Results[0].(*ast.CallExpr); ok {
				v = txt(c.Fun)
			}
			for _, e := range cc.List {
				if z, ok := strings.CutPrefix(txt(e), ec); ok {
					add(tup(z, v))
				}
			}
		})
	})

	// 3. client error aliases
	def("clientErrAliases", "List "+s2, func(add adder) {
		topVals(cliF, func(name string, v ast.Expr) {
			if strings.HasPrefix(name, "Err") {
				add(tup(name, txt(v)))
			}
		})
	})

	// 4. proto enum ErrorCode
	def("protoErrorCodes", "List (String × Nat)", func(add adder) {
		start, val := regexp.MustCompile(`^\s*enum\s+ErrorCode\s*\{`), regexp.MustCompile(`^\s*(\w+)\s*=\s*(\d+)\s*[;\[]`)
		in := false
		for _, ln := range lines("ldlm.proto") {
			ln, _, _ = strings.Cut(ln, "//")
			if !in {
				in = start.MatchString(ln)
			} else if strings.Contains(ln, "}") {
				return
			} else if m := val.FindStringSubmatch(ln); m != nil {
				n, _ := strconv.ParseUint(m[2], 10, 64)
				add(fmt.Sprintf("(%s, %d)", q(m[1]), n))
			}
		}
	})

	// 5. `if err == A { err = B }` in LockServer methods
	def("serverErrRewrites", "List "+s3, func(add adder) {
		for _, fn := range fns(srvF) {
			if _, t := recv(fn); t != "LockServer" {
				continue
			}
			each(fn.Body, func(is *ast.IfStmt) {
				c, ok := is.Cond.(*ast.BinaryExpr)
				if !ok || is.Init != nil || len(is.Body.List) != 1 || c.Op != token.EQL || txt(c.X) != "err" {
					return
				}
				if l, r := asg(is.Body.List[0]); l == "err" {
					add(tup(fn.Name.Name, txt(c.Y), r))
				}
			})
		}
	})

	// 6. argument guards (top-level `if` statements only)
	def("guards", "List "+s5, func(add adder) {
		for _, g := range []struct {
			f          *ast.File
			rtyp, name string
		}{{srvF, "LockServer", "Lock"}, {srvF, "LockServer", "TryLock"}, {srvF, "LockServer", "Renew"}, {mgrF, "Manager", "getLock"}} {
			for _, s := range findFn(g.f, g.rtyp, g.name).Body.List {
				if is, ok := s.(*ast.IfStmt); ok && guardErr(is) != "" {
					litCmps(is.Cond, func(l, op, lit string) { add(tup(g.name, l, op, lit, guardErr(is))) })
				}
			}
		}
	})

	// 7. lease units and arming guards
	def("leaseUnits", "List "+s3, func(add adder) {
		durMul := func(fn string, a, b ast.Expr) {
			c, ok1 := a.(*ast.CallExpr)
			s, ok2 := b.(*ast.SelectorExpr)
			if ok1 && ok2 && txt(c.Fun) == "time.Duration" && len(c.Args) == 1 && txt(s.X) == "time" {
				add(tup(fn, txt(c.Args[0]), s.Sel.Name))
			}
		}
		for _, fn := range fns(srvF) {
			each(fn.Body, func(b *ast.BinaryExpr) {
				if b.Op == token.MUL {
					durMul(fn.Name.Name, b.X, b.Y)
					durMul(fn.Name.Name, b.Y, b.X)
				}
			})
		}
	})
	armGuards := func(re string) func(adder) {
		return func(add adder) {
			for _, fn := range fns(srvF) {
				guarded(fn.Body, re, func(g *ast.IfStmt) {
					litCmps(g.Cond, func(l, op, lit string) { add(tup(fn.Name.Name, l, op, lit)) })
				})
			}
		}
	}
	def("leaseArmGuards", "List "+s4, armGuards(`^\w+\.lockTimerMgr\.Add$`))
	def("waitArmGuards", "List "+s4, armGuards(`^context\.WithTimeoutCause$`))

	// 8. default lock size: `*size = N` under `if size == nil`, equal in Lock and TryLock
	def("defaultSize", "Option Int", func(add adder) {
		get := func(name string) (v string) {
			for _, s := range findFn(srvF, "LockServer", name).Body.List {
				if is, ok := s.(*ast.IfStmt); ok && txt(is.Cond) == "size == nil" {
					for _, b := range is.Body.List {
						if l, r := asg(b); l == "*size" {
							v = r
						}
					}
				}
			}
			return
		}
		if v, ok := intOf(get("Lock")); ok && get("Lock") == get("TryLock") {
			add(v)
		}
	})

	// 9. client constants
	topInt := func(want string) func(adder) {
		return func(add adder) {
			topVals(cliF, func(name string, e ast.Expr) {
				if v, ok := intOf(txt(e)); ok && name == want {
					add(v)
				}
			})
		}
	}
	def("minRenewSeconds", "Option Int", topInt("MinRenewSeconds"))
	def("retryDelaySeconds", "Option Int", topInt("RetryDelaySeconds"))
	startB, retryB := findFn(cliF, "renewer", "Start").Body, findFn(cliF, "", "rpcWithRetry").Body
	def("renewThreshold", "Option (String × Int)", func(add adder) {
		each(startB, func(b *ast.BinaryExpr) {
			if v, ok := intOf(txt(b.Y)); ok && isCmp(b.Op) && txt(b.X) == "r.lockTimeoutSeconds" {
				add("(" + q(b.Op.String()) + ", " + v + ")")
			}
		})
	})
	def("renewSubtract", "Option Int", func(add adder) {
		each(startB, func(b *ast.BinaryExpr) {
			if v, ok := intOf(txt(b.Y)); ok && b.Op == token.SUB && txt(b.X) == "r.lockTimeoutSeconds" {
				add(v)
			}
		})
	})
	def("retryCode", "Option String", func(add adder) {
		each(retryB, func(b *ast.BinaryExpr) {
			z, ok := strings.CutPrefix(txt(b.Y), "codes.")
			if ok && b.Op == token.EQL && strings.HasSuffix(txt(b.X), ".Code()") {
				add(q(z))
			}
		})
	})
	def("retryBudgetCmp", "Option "+s3, func(add adder) {
		each(retryB, func(b *ast.BinaryExpr) {
			if isCmp(b.Op) && (txt(b.X) == "maxRetries" || txt(b.Y) == "maxRetries") {
				add(tup(txt(b.X), b.Op.String(), txt(b.Y)))
			}
		})
	})
	def("renewMapKey", "Option String", func(add adder) {
		calls(findFn(cliF, "Client", "maybeCreateRenewer").Body, `\.renewMap\.LoadOrStore$`, func(c *ast.CallExpr, _ []string) {
			if len(c.Args) > 0 {
				add(q(txt(c.Args[0])))
			}
		})
	})

	// 9b. every RPC the client sends: (enclosing function, method, lexically inside an argument of rpcWithRetry)
	def("clientPbcCalls", "List (String × String × Bool)", func(add adder) {
		for _, fd := range fns(cliF) {
			inRetry := map[*ast.CallExpr]bool{}
			calls(fd.Body, `^rpcWithRetry$`, func(c *ast.CallExpr, _ []string) {
				for _, a := range c.Args {
					each(a, func(in *ast.CallExpr) { inRetry[in] = true })
				}
			})
			calls(fd.Body, `\.pbc\.(\w+)$`, func(c *ast.CallExpr, m []string) {
				b := "false"
				if inRetry[c] {
					b = "true"
				}
				add("(" + q(fd.Name.Name) + ", " + q(m[1]) + ", " + b + ")")
			})
		}
	})

	// 10. normalised function bodies (long strings split into pieces of at most 1500 characters)
	for _, b := range []struct {
		def        string
		f          *ast.File
		rtyp, name string
	}{
		{"bodyGetTLSConfig", parse("net/security/security.go"), "", "GetTLSConfig"},
		{"bodyValidatePassword", restF, "restHandler", "ValidatePassword"},
		{"bodyServeHTTP", restF, "restHandler", "ServeHTTP"},
		{"bodyAuthInterceptor", grpcF, "", "authPasswordInterceptor"},
		{"bodyIpcUnlock", parse("server/ipc/ipc.go"), "IPC", "Unlock"},
		{"bodyDestroySession", srvF, "LockServer", "DestroySession"},
		{"bodyTimerReset", parse("timermap/timermap.go"), "TimerMap", "Reset"},
		{"bodyStoreWrite", parse("server/session/store/store.go"), "store", "Write"},
		{"bodyValidateSession", restF, "restHandler", "ValidateSession"},
		{"bodyRestDestroySession", restF, "restHandler", "DestroySession"},
		{"bodyRestCreateSession", restF, "restHandler", "CreateSession"},
		{"bodyRestOnTimeout", restF, "restHandler", "onTimeoutFunc"},
		{"bodyTimerAdd", parse("timermap/timermap.go"), "TimerMap", "Add"},
		{"bodyTimerRemove", parse("timermap/timermap.go"), "TimerMap", "Remove"},
		{"bodyRenewerStart", cliF, "renewer", "Start"},
		{"bodyRenewerStop", cliF, "renewer", "Stop"},
		{"bodyClientUnlock", cliF, "Client", "Unlock"},
		{"bodyClientClose", cliF, "Client", "Close"},
		{"bodyClientRenew", cliF, "Client", "Renew"},
		{"bodyMaybeCreateRenewer", cliF, "Client", "maybeCreateRenewer"},
		{"bodyMaybeRemoveRenewer", cliF, "Client", "maybeRemoveRenewer"},
		{"bodyRpcWithRetry", cliF, "", "rpcWithRetry"},
	} {
		def(b.def, "String", func(add adder) {
			fn := findFn(b.f, b.rtyp, b.name)
			if fn == noFn {
				return
			}
			rs, parts := []rune(txt(fn.Body)), []string(nil)
			for n := len(rs); n > 3000 && len(rs) > 1500; {
				parts, rs = append(parts, q(string(rs[:1500]))), rs[1500:]
			}
			add(strings.Join(append(parts, q(string(rs))), " ++\n  "))
		})
	}

	// 11. REST routes
	def("restRoutes", "List "+s3, func(add adder) {
		sel := ""
		selRe, mRe := regexp.MustCompile(`^-?\s*selector:\s*(\S+)`), regexp.MustCompile(`^-?\s*(get|put|post|delete|patch):\s*(\S+)`)
		for _, ln := range lines(".api_config.yaml") {
			ln = strings.TrimSpace(ln)
			if m := selRe.FindStringSubmatch(ln); m != nil {
				sel = strings.Trim(m[1], `'"`)
			} else if m := mRe.FindStringSubmatch(ln); m != nil && sel != "" {
				add(tup(sel, m[1], strings.Trim(m[2], `'"`)))
			}
		}
	})

	// 12. shutdown order in main: call statements after `<-sigchan` in the same block
	def("mainCloserOrder", "List String", func(add adder) {
		each(mainF, func(blk *ast.BlockStmt) {
			after := false
			for _, s := range blk.List {
				if es, ok := s.(*ast.ExprStmt); ok && after {
					if c, ok := es.X.(*ast.CallExpr); ok {
						add(q(txt(c.Fun)))
					}
				}
				after = after || txt(s) == "<-sigchan"
			}
		})
	})

	// 13. order of handler steps in ServeHTTP: calls on a selector chain rooted at the receiver
	def("restServeOrder", "List String", func(add adder) {
		fn := findFn(restF, "restHandler", "ServeHTTP")
		rv, _ := recv(fn)
		calls(fn.Body, `^(\w+)\.(\w+(\.\w+)*)$`, func(_ *ast.CallExpr, m []string) {
			if m[1] == rv {
				add(q(m[2]))
			}
		})
	})

	// 14. gRPC auth installation and service surface
	def("grpcAuthInstallCond", "Option String", func(add adder) {
		guarded(findFn(grpcF, "", "Run").Body, `^authPasswordInterceptor$`, func(g *ast.IfStmt) { add(q(txt(g.Cond))) })
	})
	def("grpcServiceMethods", "List String", func(add adder) {
		reqRe := regexp.MustCompile(`^\*pb\.\w+Request$`)
		for _, fn := range fns(grpcF) {
			_, rt := recv(fn)
			if _, pt := params(fn); rt == "Service" && fn.Name.IsExported() && len(pt) >= 2 &&
				pt[0] == "context.Context" && reqRe.MatchString(pt[1]) {
				add(q(fn.Name.Name))
			}
		}
	})

	// 15. restore of loaded locks in server.New: manager calls inside its top-level range loops
	restore := func(f func(c *ast.CallExpr, name string)) {
		for _, s := range findFn(srvF, "", "New").Body.List {
			rs, _ := s.(*ast.RangeStmt)
			calls(rs, `^\w+\.((lockMgr|sessionMgr|lockTimerMgr)\.\w+)$`, func(c *ast.CallExpr, m []string) { f(c, m[1]) })
		}
	}
	def("serverNewRestore", "List String", func(add adder) {
		restore(func(_ *ast.CallExpr, name string) { add(q(name)) })
	})
	def("serverNewRestoreTimeout", "Option String", func(add adder) {
		restore(func(c *ast.CallExpr, name string) {
			if name == "lockTimerMgr.Add" && len(c.Args) >= 3 {
				add(q(txt(c.Args[2])))
			}
		})
	})

	// 16. timer keys
	def("lockKeyFn", "Option String", func(add adder) {
		each(findFn(srvF, "", "lockTimerKey").Body, func(r *ast.ReturnStmt) {
			if len(r.Results) > 0 {
				add(q(txt(r.Results[0])))
			}
		})
	})
	def("timerKeyArgs", "List "+s2, func(add adder) {
		for _, fn := range fns(srvF) {
			calls(fn.Body, `^\w+\.lockTimerMgr\.(Add|Remove|Reset)$`, func(c *ast.CallExpr, m []string) {
				if len(c.Args) > 0 {
					add(tup(fn.Name.Name+"."+m[1], txt(c.Args[0])))
				}
			})
		}
	})

	// 17. fingerprints: for every function named in fp_names.txt (one `<file>|<receiver type>|<name>` per
	// line, next to this program) the first 16 hex digits of SHA-256 over its normalised signature and
	// body, or "missing". A property's fingerprint pins (Pins/FP/Cxx.lean) name the functions its models
	// were written against: a change to one of them breaks exactly those properties' obligation.
	exe, _ := os.Executable()
	for _, dir := range []string{os.Getenv("VERIF_FP_DIR"), ".", filepath.Dir(exe), "/verif/tools/facts"} {
		b, err := os.ReadFile(filepath.Join(dir, "fp_names.txt"))
		if dir == "" || err != nil {
			continue
		}
		parsed := map[string]*ast.File{}
		for _, ln := range strings.Split(string(b), "\n") {
			f := strings.Split(strings.TrimSpace(ln), "|")
			if len(f) != 3 {
				continue
			}
			if parsed[f[0]] == nil {
				parsed[f[0]] = parse(f[0])
			}
			h := "missing"
			if fn := findFn(parsed[f[0]], f[1], f[2]); fn != noFn {
				sum := sha256.Sum256([]byte(txt(fn.Type) + " " + txt(fn.Body)))
				h = hex.EncodeToString(sum[:8])
			}
			id := regexp.MustCompile(`[^A-Za-z0-9]+`).ReplaceAllString(strings.TrimSuffix(f[0], ".go")+"_"+f[1]+"_"+f[2], "_")
			fmt.Fprintf(&out, "def fp_%s : String := %s\n\n", id, q(h))
		}
		break
	}

	out.WriteString("end Ldlm.Facts\n")
	if err := os.WriteFile(os.Args[2], []byte(out.String()), 0o644); err != nil {
		die(err)
	}
}
