import Ldlm.Model.RestConc
import Ldlm.Driver.Util
/-!
`driver linrest`: validation of M4c (the REST gateway's session table under concurrency) against the
instrumented gateway.  Input: what the threads of a small concurrent program did to `n` REST sessions
and what the gateway delivered, as events in the order they happened under a controlled schedule:

    hist sessions=<n>
    inv <id> req <j>          a lock request with session j's cookie enters ServeHTTP
    inv <id> del <j>          DELETE /session with session j's cookie
    ret <id> <status>         200 | 401 (request refused) | 409 (DELETE of a session that is gone)
    end <j>                   the connection-end hook was called for session j
    tick                      the virtual clock has been advanced by at least the session timeout
    quiet                     three session timeouts of silence have passed and every thread has returned
    fin

A history is accepted when M4c (`RestConc.step`) has a schedule in which every request / DELETE is
spawned at its `inv`, takes its steps between `inv` and `ret`, returns the observed status, every
observed `end` is a connection-end step of the model not later than the observation, idle timers fire
only after a `tick`, and at `quiet` no model thread is in flight, no idle timer is still armed and the
model has delivered exactly the observed connection-ends.  Output per history: `ok` or `reject <event>`.
-/
namespace Ldlm.Driver.RestLin
open Ldlm.RestConc
open Ldlm.Lease (TimerSt)

/-- per session: outcomes the model has produced / the observed ones matched against them so far -/
structure Cnt where
  served : Nat := 0
  refused : Nat := 0
  conflict : Nat := 0
  delDone : Nat := 0
  ends : Nat := 0
deriving DecidableEq, Repr

structure RCfg where
  st : St
  n : Nat
  made : List Cnt        -- produced by model steps
  used : List Cnt        -- matched with observed events
  fireOk : Bool

def RCfg.key (c : RCfg) : (Option (Nat × Kind)) × Bool × List Sess × List Cnt × List Cnt × Bool :=
  (c.st.tbl, c.st.crashed, (List.range c.n).map c.st.sess, c.made, c.used, c.fireOk)

instance : BEq RCfg := ⟨fun a b => a.key == b.key⟩

def modAt (l : List Cnt) (j : Nat) (f : Cnt → Cnt) : List Cnt :=
  l.zipIdx.map fun (c, i) => if i = j then f c else c

def getAt (l : List Cnt) (j : Nat) : Cnt := l.getD j {}

/-- apply one model action, updating the produced-outcome counters -/
def apply (c : RCfg) (a : Act) (j : Nat) : Option RCfg :=
  match step c.st a with
  | none => none
  | some s' =>
    if s'.crashed then none else
    let x := c.st.sess j
    let y := s'.sess j
    let f : Cnt → Cnt := fun k =>
      { k with served := k.served + (y.served - x.served), refused := k.refused + (y.refused - x.refused),
               conflict := k.conflict + (y.conflict - x.conflict), ends := k.ends + (y.ends - x.ends),
               delDone := k.delDone + (match a with | .delEnd _ => 1 | _ => 0) }
    some { c with st := s', made := modAt c.made j f }

def expand (c : RCfg) : List RCfg :=
  (List.range c.n).flatMap fun j =>
    let acts : List Act := [.reqLock j, .reqMtx j, .reqServe j, .delLock j, .delMtx j, .delEnd j,
                            .cbLock j, .cbMtx j, .cbEnd j, .cbClean j] ++ (if c.fireOk then [.fire j] else [])
    acts.filterMap fun a => apply c a j

def addNew (acc : List RCfg) (cs : List RCfg) : List RCfg × List RCfg :=
  cs.foldl (fun (p : List RCfg × List RCfg) c => if p.1.contains c then p else (p.1 ++ [c], p.2 ++ [c])) (acc, [])

def closure : Nat → List RCfg → List RCfg → List RCfg
  | 0, acc, _ => acc
  | _, acc, [] => acc
  | fuel+1, acc, frontier =>
    let (acc', fresh) := addNew acc (frontier.flatMap expand)
    closure fuel acc' fresh

/-- match one observed outcome of session j against the outcomes the model has produced -/
def consume (c : RCfg) (j : Nat) (get : Cnt → Nat) (bump : Cnt → Cnt) : Option RCfg :=
  if get (getAt c.made j) > get (getAt c.used j) then some { c with used := modAt c.used j bump } else none

def Sess.busyB (x : Sess) : Bool :=
  x.nR1 > 0 || x.nD1 > 0 || x.nD3 > 0 || x.mtx != none || x.cb == .t1 || x.cb == .t2 || x.cb == .t3 || x.cb == .t4

def quietOK (c : RCfg) : Bool :=
  c.st.tbl == none && c.made == c.used &&
  (List.range c.n).all fun j => let x := c.st.sess j; !(Sess.busyB x) && x.timer != .armed

structure Pend where
  id : Nat
  isDel : Bool
  j : Nat
deriving DecidableEq, Repr

def event (cfgs : List RCfg) (pend : List Pend) (ws : List String) : Option (List RCfg × List Pend) :=
  match ws with
  | ["inv", id, kind, j] =>
    match id.toNat?, j.toNat? with
    | some id, some j =>
      let a : Act := if kind = "del" then .spawnDel j else .spawnReq j
      some (cfgs.filterMap (fun c => (step c.st a).map fun s' => { c with st := s' }), pend ++ [⟨id, kind = "del", j⟩])
    | _, _ => none
  | ["ret", id, status] =>
    match id.toNat? with
    | none => none
    | some id =>
      match pend.find? (·.id = id) with
      | none => none
      | some p =>
        let all := closure 200 cfgs cfgs
        let pick (c : RCfg) : Option RCfg :=
          if p.isDel then
            if status = "200" then consume c p.j (·.delDone) (fun k => { k with delDone := k.delDone + 1 })
            else if status = "409" then consume c p.j (·.conflict) (fun k => { k with conflict := k.conflict + 1 })
            else none
          else
            if status = "200" then consume c p.j (·.served) (fun k => { k with served := k.served + 1 })
            else if status = "401" then consume c p.j (·.refused) (fun k => { k with refused := k.refused + 1 })
            else none
        some (all.filterMap pick, pend.filter (·.id ≠ id))
  | ["end", j] =>
    match j.toNat? with
    | none => none
    | some j =>
      let all := closure 200 cfgs cfgs
      some (all.filterMap (fun c => consume c j (·.ends) (fun k => { k with ends := k.ends + 1 })), pend)
  | ["tick"] => some (cfgs.map (fun c => { c with fireOk := true }), pend)
  | ["quiet"] =>
    let all := closure 200 (cfgs.map fun c => { c with fireOk := true }) (cfgs.map fun c => { c with fireOk := true })
    some (all.filter quietOK, pend)
  | _ => none

partial def hist (h : IO.FS.Stream) (cfgs : List RCfg) (pend : List Pend) (n : Nat) (bad : Option String) : IO String := do
  let line ← h.getLine
  if line.isEmpty then return "eof"
  let ws := (line.trimAscii.toString.splitOn " ").filter (· ≠ "")
  match ws with
  | ["fin"] =>
    match bad with
    | some b => return b
    | none => return "ok"
  | _ =>
    match bad with
    | some _ => hist h cfgs pend (n + 1) bad
    | none =>
      match event cfgs pend ws with
      | none => hist h cfgs pend (n + 1) (some s!"reject {n}: unknown event {line.trimAscii.toString}")
      | some ([], _) => hist h [] pend (n + 1) (some s!"reject {n}: after `{line.trimAscii.toString}` no schedule of the model's threads produces the events so far")
      | some (cs, p') => hist h cs p' (n + 1) none

partial def linRestMain : IO Unit := do
  let h ← IO.getStdin
  let out ← IO.getStdout
  let line ← h.getLine
  if line.isEmpty then return ()
  let ws := (line.trimAscii.toString.splitOn " ").filter (· ≠ "")
  match ws with
  | ["hist", ns] =>
    match (ns.drop 9).toString.toNat? with
    | some n =>
      let c0 : RCfg := { st := init, n := n, made := List.replicate n {}, used := List.replicate n {}, fireOk := false }
      let r ← hist h [c0] [] 0 none
      out.putStrLn r; out.flush
      linRestMain
    | none => out.putStrLn "bad-hist"; out.flush; linRestMain
  | _ => out.putStrLn "bad-hist"; out.flush; linRestMain

end Ldlm.Driver.RestLin
