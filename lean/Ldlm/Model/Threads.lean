import Ldlm.Model.Table
/-!
M1t — the calls of `lock.Manager` on ONE lock object as threads with a program counter, on top of M1's
critical sections (`Table.stepObj`).  M1 is in "pool" form: a schedule is a list of critical
sections and nothing says which call a critical section belongs to or when that call was invoked and
when it returned.  M1t adds exactly that: a thread invokes `TryLock(k)`, `Lock(k)` or `Unlock(k)`
(event `inv`), runs the critical sections of `manager.go` / `lock.go` / `semaphore.go` in program
order — getLock (take a reference), TryAcquire / Acquire / Lock.Unlock, addKey, drop the reference —
and returns a result (event `ret`).  Every operation of the atomic specification that M1 emits is
attributed to the call it belongs to (event `lin`): to the running thread, except that the grant
produced by `Release`'s hand-over belongs to the waiter at the head of the queue.

With the events in schedule order, "every `lin` of a call lies between its `inv` and its `ret`, and
the `ret` carries the result of the call's `lin`" is linearizability with explicit linearization
points, real-time order included (checked by `wf`; proved for every schedule in `Proofs/Threads.lean`).
Core Lean only.
-/
namespace Ldlm.Threads
open Ldlm Ldlm.Table

inductive Call
  | tryLock (k : Str)
  | lock (k : Str)
  | unlock (k : Str)
deriving DecidableEq, Repr

inductive Pc
  | start              -- invoked; `getLock` not yet done
  | got                -- holds a reference to the lock object
  | wait               -- Lock: inside `semaphore.Acquire`, queued or already handed the unit
  | unit               -- unit taken (TryAcquire / Acquire fast path), key not yet recorded
  | drop (ok : Bool)   -- result decided; the deferred `users.Add(-1)` is what remains
deriving DecidableEq, Repr

structure Th where
  call : Call
  pc   : Pc
  lins : List AOp      -- ghost: the specification operations attributed to this call so far
deriving DecidableEq, Repr

structure TSt where
  o   : Obj
  ths : List (Tid × Th)    -- the calls in progress, by thread
deriving DecidableEq, Repr

inductive TAct
  | invoke (t : Tid) (c : Call)
  | refuse (t : Tid)        -- the call ends before it reaches the lock object (getLock error, manager shut down)
  | next (t : Tid)          -- the next critical section of t's call
  | giveUp (t : Tid)        -- context done / manager context cancelled: at `got` nothing is touched; in `wait` cancel or hand back
deriving Repr

inductive Ev
  | inv (t : Tid) (c : Call)
  | lin (t : Tid) (op : AOp)
  | ret (t : Tid) (ok : Bool)
deriving DecidableEq, Repr

/-- attribute `op` to the call of thread `w` -/
def credit (ths : List (Tid × Th)) (w : Tid) (op : AOp) : List (Tid × Th) :=
  match AMap.get ths w with
  | some th => AMap.set ths w { th with lins := th.lins ++ [op] }
  | none => ths

/-- the grant that `Release` hands to the head of the queue -/
def handOver (n : Str) (o : Obj) (ths : List (Tid × Th)) : List (Tid × Th) × List Ev :=
  match o.q with
  | w :: _ => (credit ths w.1 (.grant n w.2), [.lin w.1 (.grant n w.2)])
  | [] => (ths, [])

def tstep (n : Str) (s : TSt) : TAct → Option (TSt × List Ev)
  | .invoke t c =>
    match AMap.get s.ths t with
    | some _ => none
    | none => some ({ s with ths := AMap.set s.ths t ⟨c, .start, []⟩ }, [.inv t c])
  | .refuse t =>
    match AMap.get s.ths t with
    | some ⟨_, .start, _⟩ => some ({ s with ths := AMap.del s.ths t }, [.ret t false])
    | _ => none
  | .giveUp t =>
    match AMap.get s.ths t with
    | some ⟨c, .got, l⟩ => some ({ s with ths := AMap.set s.ths t ⟨c, .drop false, l⟩ }, [])
    | some ⟨.lock k, .wait, l⟩ =>
      match stepObj n s.o (.cancel t n k) with
      | some (o', _) => some ({ o := o', ths := AMap.set s.ths t ⟨.lock k, .drop false, l⟩ }, [])
      | none =>
        match stepObj n s.o (.handBack t n k) with
        | some (o', _) =>
          -- the unit goes back: `Release` inside `Acquire`; a waiter behind may be handed it
          let ths1 := AMap.set s.ths t ⟨.lock k, .drop false, l ++ [.unlock n k true]⟩
          let (ths2, g) := handOver n { s.o with acq := s.o.acq.erase (t, k) } ths1
          some ({ o := o', ths := ths2 }, .lin t (.unlock n k true) :: g)
        | none => none
    | _ => none
  | .next t =>
    match AMap.get s.ths t with
    | none => none
    | some ⟨c, .start, l⟩ =>
      some ({ o := { s.o with plain := s.o.plain + 1 }, ths := AMap.set s.ths t ⟨c, .got, l⟩ }, [])
    | some ⟨.tryLock k, .got, l⟩ =>
      match stepObj n s.o (.tryAcquire t n k) with
      | some (o', _) =>
        let ok := decide (s.o.cur < s.o.size ∧ s.o.q = [])
        some ({ o := o', ths := AMap.set s.ths t ⟨.tryLock k, if ok then .unit else .drop false, l ++ [.try n k ok]⟩ },
              [.lin t (.try n k ok)])
      | none => none
    | some ⟨.lock k, .got, l⟩ =>
      match stepObj n s.o (.acquire t n k) with
      | some (o', _) =>
        if s.o.cur < s.o.size ∧ s.o.q = [] then
          some ({ o := o', ths := AMap.set s.ths t ⟨.lock k, .unit, l ++ [.grant n k]⟩ }, [.lin t (.grant n k)])
        else some ({ o := o', ths := AMap.set s.ths t ⟨.lock k, .wait, l⟩ }, [])
      | none => none
    | some ⟨.unlock k, .got, l⟩ =>
      match stepObj n s.o (.unlock t n k) with
      | some (o', _) =>
        if k ∈ s.o.keys then
          let ths1 := AMap.set s.ths t ⟨.unlock k, .drop true, l ++ [.unlock n k true]⟩
          let (ths2, g) := handOver n s.o ths1
          some ({ o := o', ths := ths2 }, .lin t (.unlock n k true) :: g)
        else
          some ({ o := o', ths := AMap.set s.ths t ⟨.unlock k, .drop false, l ++ [.unlock n k false]⟩ },
                [.lin t (.unlock n k false)])
      | none => none
    | some ⟨.lock k, .wait, l⟩ =>
      -- woken up holding the unit: addKey
      match stepObj n s.o (.addKey t n k) with
      | some (o', _) => some ({ o := o', ths := AMap.set s.ths t ⟨.lock k, .drop true, l⟩ }, [])
      | none => none
    | some ⟨.lock k, .unit, l⟩ =>
      match stepObj n s.o (.addKey t n k) with
      | some (o', _) => some ({ o := o', ths := AMap.set s.ths t ⟨.lock k, .drop true, l⟩ }, [])
      | none => none
    | some ⟨.tryLock k, .unit, l⟩ =>
      match stepObj n s.o (.addKey t n k) with
      | some (o', _) => some ({ o := o', ths := AMap.set s.ths t ⟨.tryLock k, .drop true, l⟩ }, [])
      | none => none
    | some ⟨_, .drop ok, _⟩ =>
      match stepObj n s.o (.decref t n) with
      | some (o', _) => some ({ o := o', ths := AMap.del s.ths t }, [.ret t ok])
      | none => none
    | _ => none

/-- run a schedule; the events in schedule order -/
def trun (n : Str) : TSt → List TAct → Option (TSt × List Ev)
  | s, [] => some (s, [])
  | s, a :: as =>
    match tstep n s a with
    | none => none
    | some (s', ev) => (trun n s' as).map (fun r => (r.1, ev ++ r.2))

/-- the specification operations of a trace, in order -/
def lins : List Ev → List AOp
  | [] => []
  | .lin _ op :: es => op :: lins es
  | _ :: es => lins es

/-- the critical sections of a threaded schedule as M1 actions (what `Table.runObj` consumes);
`none` for the steps that are not a critical section of the object (invoke, refuse, getLock — the
reference count `plain` is bookkeeping of M1 itself — and giving up before the semaphore is touched) -/
def project (n : Str) (s : TSt) : TAct → Option Act
  | .next t =>
    match AMap.get s.ths t with
    | some ⟨.tryLock k, .got, _⟩ => some (.tryAcquire t n k)
    | some ⟨.lock k, .got, _⟩ => some (.acquire t n k)
    | some ⟨.unlock k, .got, _⟩ => some (.unlock t n k)
    | some ⟨.lock k, .wait, _⟩ | some ⟨.lock k, .unit, _⟩ | some ⟨.tryLock k, .unit, _⟩ => some (.addKey t n k)
    | some ⟨_, .drop _, _⟩ => some (.decref t n)
    | _ => none
  | .giveUp t =>
    match AMap.get s.ths t with
    | some ⟨.lock k, .wait, _⟩ => if (t, k) ∈ s.o.q then some (.cancel t n k) else some (.handBack t n k)
    | _ => none
  | _ => none

/-! ### what a well-formed (linearizable, with these linearization points) trace is -/

/-- the result a call must return, given the specification operations attributed to it -/
def resOK (n : Str) : Call → List AOp → Bool → Bool
  | .tryLock k, [.try n' k' b], ok => n' = n ∧ k' = k ∧ b = ok
  | .lock k, [.grant n' k'], ok => n' = n ∧ k' = k ∧ ok = true
  | .lock k, [.grant n' k', .unlock n'' k'' true], ok => n' = n ∧ k' = k ∧ n'' = n ∧ k'' = k ∧ ok = false
  | .unlock k, [.unlock n' k' b], ok => n' = n ∧ k' = k ∧ b = ok
  | _, [], ok => ok = false           -- the call never took effect on the lock: it must report failure
  | _, _, _ => false

/-- scan a trace with the set of open calls: `inv` opens (the thread must be idle), `lin` must hit an
open call, `ret` closes with the result the call's operations determine -/
def wf (n : Str) : List (Tid × Call × List AOp) → List Ev → Bool
  | _, [] => true
  | os, .inv t c :: es => (AMap.get os t).isNone && wf n (AMap.set os t (c, [])) es
  | os, .lin t op :: es =>
    match AMap.get os t with
    | some (c, l) => wf n (AMap.set os t (c, l ++ [op])) es
    | none => false
  | os, .ret t ok :: es =>
    match AMap.get os t with
    | some (c, l) => resOK n c l ok && wf n (AMap.del os t) es
    | none => false

end Ldlm.Threads
