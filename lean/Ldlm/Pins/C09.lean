import Ldlm.Generated.Facts
/-!
Pins: the normalised source text of the small decision functions the hand-written models M4/M6/M7
were written against.  `Generated/Facts.lean` is regenerated from /repo on every run; each `pin_*`
theorem below breaks when the function's text changes (comment-only and whitespace-only edits do
not change the normalised text).  A broken pin is a broken proof obligation: the models may no
longer describe the code, and the check then searches the implementation for a failing input.
This file is written by hand (copied from the facts at the time the models were written) and is
NOT regenerated.

This file: the functions the models of C09 are written against. A change to one of them breaks
exactly the checks of the properties that pin it.
-/
namespace Ldlm.Pins.C09
open Ldlm

def expectedStoreWrite : String := "{ if l.fh == nil { return nil } d := marshalLocks(sessionLocks) l.fh.Truncate(0) l.fh.Seek(0, io.SeekStart) if _, err := l.fh.Write(d); err != nil { panic(err) } l.fh.Sync() return nil }"

theorem pin_StoreWrite : Facts.bodyStoreWrite = expectedStoreWrite := rfl

end Ldlm.Pins.C09
