#!/bin/sh
# process_seeded.sh <id>: confirm a seeded change in its scratch worktree (suite with the change, demo with and without it)
id=$1
sh /verif/tools/confirm_seeded.sh $id
sh /verif/tools/demo_seeded.sh $id
